module verifharness

go 1.18

require (
	github.com/anishathalye/porcupine v1.3.0
	github.com/bmeg/grip v0.0.0
	github.com/hashicorp/go-multierror v1.0.0
	github.com/jmoiron/sqlx v1.2.0
	google.golang.org/genproto v0.0.0-20230303212802-e74f57abe488
	google.golang.org/grpc v1.53.0
	google.golang.org/protobuf v1.28.2-0.20230222093303-bc1253ad3743
)

require (
	github.com/DataDog/zstd v1.4.5 // indirect
	github.com/Knetic/govaluate v3.0.1-0.20171022003610-9aa49832a739+incompatible // indirect
	github.com/Workiva/go-datastructures v1.0.52 // indirect
	github.com/akrylysov/pogreb v0.8.1 // indirect
	github.com/akuity/grpc-gateway-client v0.0.0-20230321170839-38ca1b4b439c // indirect
	github.com/alevinval/sse v1.0.1 // indirect
	github.com/beorn7/perks v1.0.1 // indirect
	github.com/bmeg/jsonpath v0.0.0-20210207014051-cca5355553ad // indirect
	github.com/boltdb/bolt v1.3.1 // indirect
	github.com/casbin/casbin/v2 v2.40.6 // indirect
	github.com/cespare/xxhash v1.1.0 // indirect
	github.com/cespare/xxhash/v2 v2.2.0 // indirect
	github.com/cockroachdb/errors v1.8.1 // indirect
	github.com/cockroachdb/logtags v0.0.0-20190617123548-eb05cc24525f // indirect
	github.com/cockroachdb/pebble v0.0.0-20230701135918-609ae80aea41 // indirect
	github.com/cockroachdb/redact v1.0.8 // indirect
	github.com/cockroachdb/sentry-go v0.6.1-cockroachdb.2 // indirect
	github.com/cockroachdb/tokenbucket v0.0.0-20230613231145-182959a1fad6 // indirect
	github.com/dgraph-io/badger/v2 v2.0.1 // indirect
	github.com/dgraph-io/ristretto v0.0.0-20191025175511-c1f00be0418e // indirect
	github.com/dgryski/go-farm v0.0.0-20190423205320-6a90982ecee2 // indirect
	github.com/dustin/go-humanize v1.0.1 // indirect
	github.com/fatih/color v1.7.0 // indirect
	github.com/felixge/httpsnoop v1.0.1 // indirect
	github.com/go-resty/resty/v2 v2.7.0 // indirect
	github.com/gogo/protobuf v1.3.2 // indirect
	github.com/golang/protobuf v1.5.2 // indirect
	github.com/golang/snappy v0.0.4 // indirect
	github.com/google/uuid v1.3.0 // indirect
	github.com/grpc-ecosystem/go-grpc-middleware v1.0.0 // indirect
	github.com/grpc-ecosystem/grpc-gateway/v2 v2.15.2 // indirect
	github.com/hashicorp/errwrap v1.0.0 // indirect
	github.com/hashicorp/go-hclog v0.14.1 // indirect
	github.com/hashicorp/go-plugin v1.4.2 // indirect
	github.com/hashicorp/yamux v0.0.0-20180604194846-3520598351bb // indirect
	github.com/influxdata/tdigest v0.0.1 // indirect
	github.com/json-iterator/go v1.1.12 // indirect
	github.com/kennygrant/sanitize v1.2.4 // indirect
	github.com/klauspost/compress v1.16.0 // indirect
	github.com/klauspost/cpuid/v2 v2.2.4 // indirect
	github.com/kr/pretty v0.2.1 // indirect
	github.com/kr/text v0.2.0 // indirect
	github.com/logrusorgru/aurora v0.0.0-20190428105938-cea283e61946 // indirect
	github.com/mailru/easyjson v0.0.0-20180730094502-03f2033d19d5 // indirect
	github.com/mattn/go-colorable v0.1.7 // indirect
	github.com/mattn/go-isatty v0.0.12 // indirect
	github.com/matttproud/golang_protobuf_extensions v1.0.2-0.20181231171920-c182affec369 // indirect
	github.com/minio/md5-simd v1.1.2 // indirect
	github.com/minio/minio-go/v7 v7.0.50 // indirect
	github.com/minio/sha256-simd v1.0.0 // indirect
	github.com/mitchellh/go-testing-interface v1.0.0 // indirect
	github.com/mitchellh/hashstructure/v2 v2.0.1 // indirect
	github.com/modern-go/concurrent v0.0.0-20180306012644-bacd9c7ef1dd // indirect
	github.com/modern-go/reflect2 v1.0.2 // indirect
	github.com/montanaflynn/stats v0.0.0-20171201202039-1bf9dbcd8cbe // indirect
	github.com/oklog/run v1.0.0 // indirect
	github.com/pkg/errors v0.9.1 // indirect
	github.com/prometheus/client_golang v1.12.0 // indirect
	github.com/prometheus/client_model v0.2.1-0.20210607210712-147c58e9608a // indirect
	github.com/prometheus/common v0.32.1 // indirect
	github.com/prometheus/procfs v0.7.3 // indirect
	github.com/rs/xid v1.4.0 // indirect
	github.com/segmentio/ksuid v1.0.2 // indirect
	github.com/sirupsen/logrus v1.9.0 // indirect
	github.com/spf13/cast v1.3.0 // indirect
	github.com/syndtr/goleveldb v1.0.0 // indirect
	github.com/xdg-go/pbkdf2 v1.0.0 // indirect
	github.com/xdg-go/scram v1.1.2 // indirect
	github.com/xdg-go/stringprep v1.0.4 // indirect
	github.com/youmark/pkcs8 v0.0.0-20201027041543-1326539a0a0a // indirect
	go.mongodb.org/mongo-driver v1.12.0 // indirect
	golang.org/x/crypto v0.6.0 // indirect
	golang.org/x/exp v0.0.0-20200513190911-00229845015e // indirect
	golang.org/x/net v0.7.0 // indirect
	golang.org/x/sync v0.1.0 // indirect
	golang.org/x/sys v0.5.0 // indirect
	golang.org/x/term v0.5.0 // indirect
	golang.org/x/text v0.7.0 // indirect
	gopkg.in/ini.v1 v1.67.0 // indirect
	gopkg.in/olivere/elastic.v5 v5.0.80 // indirect
	gopkg.in/yaml.v2 v2.4.0 // indirect
	sigs.k8s.io/yaml v1.3.0 // indirect
)

replace github.com/bmeg/grip => /repo
