package fw

import (
	"bufio"
	"encoding/json"
	"fmt"
	"os"
	"path/filepath"
	"regexp"
	"runtime"
	"strings"
	"sync"
	"sync/atomic"
	"time"
)

// Worker is the per-process context handed to Property.Exec.
type Worker struct {
	Prop    *Property
	TmpDir  string // private scratch directory, removed by the driver
	Tier    string
	Seed    int64
	state   map[string]interface{}
	mu      sync.Mutex
	prog    *os.File
	current atomic.Int64
	// Progress is bumped by monitors; the hang certifier requires it to be
	// unchanged between two snapshots.
	Progress atomic.Int64
	// HangDiag, when set by Exec, is asked first when the watchdog fires
	// (e.g. for a livelock certificate from the event recorder).
	HangDiag atomic.Value // func() *Result
}

// State keeps lazily-built per-worker objects (an open store, a live server).
func (w *Worker) State(name string, mk func() interface{}) interface{} {
	w.mu.Lock()
	defer w.mu.Unlock()
	if v, ok := w.state[name]; ok {
		return v
	}
	v := mk()
	w.state[name] = v
	return v
}

func (w *Worker) DropState(name string) {
	w.mu.Lock()
	defer w.mu.Unlock()
	delete(w.state, name)
}

var dirCounter atomic.Int64

// NewDir returns a fresh directory under the worker's scratch area.
func (w *Worker) NewDir(prefix string) string {
	d := filepath.Join(w.TmpDir, fmt.Sprintf("%s-%d", prefix, dirCounter.Add(1)))
	os.MkdirAll(d, 0o755)
	return d
}

// WorkerMain is the entry point of `verifrun worker`.
// args: <prop> <tier> <seed> <batchfile> <progressfile> <tmpdir>
func WorkerMain(args []string) {
	if len(args) < 6 {
		fmt.Fprintln(os.Stderr, "worker: bad args")
		os.Exit(2)
	}
	p := Lookup(args[0])
	if p == nil {
		fmt.Fprintln(os.Stderr, "worker: unknown property", args[0])
		os.Exit(2)
	}
	var seed int64
	fmt.Sscan(args[2], &seed)
	w := &Worker{Prop: p, Tier: args[1], Seed: seed, TmpDir: args[5], state: map[string]interface{}{}}
	os.MkdirAll(w.TmpDir, 0o755)
	bf, err := os.Open(args[3])
	if err != nil {
		fmt.Fprintln(os.Stderr, "worker:", err)
		os.Exit(2)
	}
	prog, err := os.OpenFile(args[4], os.O_CREATE|os.O_WRONLY|os.O_APPEND, 0o644)
	if err != nil {
		fmt.Fprintln(os.Stderr, "worker:", err)
		os.Exit(2)
	}
	w.prog = prog
	sc := bufio.NewScanner(bf)
	sc.Buffer(make([]byte, 1<<20), 256<<20)
	for sc.Scan() {
		line := sc.Bytes()
		if len(line) == 0 {
			continue
		}
		var c Case
		if err := json.Unmarshal(line, &c); err != nil {
			fmt.Fprintln(os.Stderr, "worker: bad case:", err)
			os.Exit(2)
		}
		w.runOne(c)
	}
	os.Exit(0)
}

func (w *Worker) runOne(c Case) {
	fmt.Fprintf(w.prog, "BEGIN %d\n", c.ID)
	fmt.Fprintf(os.Stderr, "\n#### CASE %d BEGIN\n", c.ID)
	done := make(chan struct{})
	var res Result
	go func() {
		defer close(done)
		res = w.Prop.Exec(w, c)
	}()
	timer := time.NewTimer(w.Prop.CaseTimeout)
	select {
	case <-done:
		timer.Stop()
	case <-timer.C:
		// The watchdog only triggers diagnosis; the verdict comes from state.
		hres := w.diagnoseHang(c)
		select {
		case <-done:
			// the case finished while it was being diagnosed: it was slow, not stuck
			if hres.Status == Violated {
				hres = InconclusiveR("watchdog fired, the case finished during the diagnosis")
			}
		default:
		}
		hres.ID = c.ID
		b, _ := json.Marshal(hres)
		fmt.Fprintf(w.prog, "END %d %s\n", c.ID, b)
		w.prog.Sync()
		os.Exit(3)
	}
	res.ID = c.ID
	b, _ := json.Marshal(res)
	fmt.Fprintf(w.prog, "END %d %s\n", c.ID, b)
	if res.ExitAfter {
		w.prog.Sync()
		os.Exit(4)
	}
}

// ---------------------------------------------------------------------------
// Deadlock certificate (DESIGN.md 3.3)

type Goroutine struct {
	ID     string
	State  string
	Frames []string // function names, innermost first
	Text   string
}

var goroutineHdr = regexp.MustCompile(`^goroutine (\d+)(?: gp=\S+ m=\S+(?: mp=\S+)?)? \[([^\]]*)\]:`)

// ParseDump splits a runtime.Stack(all) / SIGQUIT dump into goroutines.
func ParseDump(dump string) []Goroutine {
	var out []Goroutine
	var cur *Goroutine
	for _, line := range strings.Split(dump, "\n") {
		if m := goroutineHdr.FindStringSubmatch(line); m != nil {
			out = append(out, Goroutine{ID: m[1], State: m[2]})
			cur = &out[len(out)-1]
			cur.Text = line + "\n"
			continue
		}
		if cur == nil {
			continue
		}
		if strings.TrimSpace(line) == "" {
			cur = nil
			continue
		}
		cur.Text += line + "\n"
		if !strings.HasPrefix(line, "\t") && !strings.HasPrefix(line, " ") {
			fn := line
			if strings.HasPrefix(fn, "created by ") {
				continue
			}
			if i := strings.LastIndex(fn, "("); i > 0 {
				fn = fn[:i]
			}
			cur.Frames = append(cur.Frames, fn)
		}
	}
	return out
}

const gripPkg = "github.com/bmeg/grip/"

// GripGoroutines selects goroutines with at least one bmeg/grip frame.
func GripGoroutines(gs []Goroutine) []Goroutine {
	var out []Goroutine
	for _, g := range gs {
		for _, f := range g.Frames {
			if strings.HasPrefix(f, gripPkg) {
				out = append(out, g)
				break
			}
		}
	}
	return out
}

func blockedState(s string) bool {
	s = strings.Split(s, ",")[0]
	switch s {
	case "chan send", "chan receive", "select (no cases)", "chan send (nil chan)", "chan receive (nil chan)", "sync.WaitGroup.Wait", "semacquire", "sync.Mutex.Lock", "sync.RWMutex.RLock", "sync.RWMutex.Lock", "sync.Cond.Wait":
		return true
	}
	return false
}

func dumpAll() string {
	for size := 256 << 10; ; size *= 4 {
		buf := make([]byte, size)
		n := runtime.Stack(buf, true)
		if n < size || size >= 64<<20 {
			return string(buf[:n])
		}
	}
}

func signature(gs []Goroutine) string {
	var sb strings.Builder
	for _, g := range gs {
		sb.WriteString(g.ID)
		sb.WriteString(":")
		sb.WriteString(strings.Split(g.State, ",")[0])
		sb.WriteString(":")
		if len(g.Frames) > 0 {
			sb.WriteString(strings.Join(g.Frames, "<"))
		}
		sb.WriteString(";")
	}
	return sb.String()
}

// diagnoseHang decides between deadlock (violated, with the dump as witness)
// and inconclusive.
func (w *Worker) diagnoseHang(c Case) Result {
	if f, ok := w.HangDiag.Load().(func() *Result); ok && f != nil {
		if r := f(); r != nil {
			fmt.Fprintf(os.Stderr, "#### HANG DIAGNOSIS (custom) case %d: %s\n%s\n", c.ID, r.Msg, dumpAll())
			return *r
		}
	}
	p1 := w.Progress.Load()
	d1 := dumpAll()
	time.Sleep(3 * time.Second)
	p2 := w.Progress.Load()
	d2 := dumpAll()
	g1 := GripGoroutines(ParseDump(d1))
	g2 := GripGoroutines(ParseDump(d2))
	fmt.Fprintf(os.Stderr, "#### HANG DIAGNOSIS case %d\n%s\n", c.ID, d2)
	filter := func(gs []Goroutine) []Goroutine {
		var out []Goroutine
		for _, g := range gs {
			skip := false
			for _, f := range g.Frames {
				// the watchdog's own goroutine, not the one executing the case
				if strings.HasSuffix(f, "fw.(*Worker).diagnoseHang") {
					skip = true
				}
			}
			if !skip {
				out = append(out, g)
			}
		}
		return out
	}
	g1, g2 = filter(g1), filter(g2)
	// an operation on a nil channel (or an empty select) never completes, whatever the other goroutines do
	for _, g := range g2 {
		st := strings.Split(g.State, ",")[0]
		if (st == "chan send (nil chan)" || st == "chan receive (nil chan)" || st == "select (no cases)") && waitsInOwnCode(g) {
			site := ""
			for _, f := range g.Frames {
				if strings.HasPrefix(f, gripPkg) {
					site = strings.TrimPrefix(f, gripPkg)
					break
				}
			}
			return ViolatedR("deadlock:nil-channel", fmt.Sprintf("certified hang: a goroutine is blocked for ever in %s [%s]; the case did not finish within %s", site, st, w.Prop.CaseTimeout), map[string]interface{}{"blocked_site": site, "state": st})
		}
	}
	allBlocked := len(g2) > 0
	for _, g := range g2 {
		if !(blockedState(g.State) && waitsInOwnCode(g)) && !w.peerWait(g) {
			allBlocked = false
		}
	}
	if allBlocked && p1 == p2 && signature(g1) == signature(g2) {
		var sites []string
		seen := map[string]bool{}
		for _, g := range g2 {
			for _, f := range g.Frames {
				if strings.HasPrefix(f, gripPkg) {
					s := strings.TrimPrefix(f, gripPkg) + " [" + strings.Split(g.State, ",")[0] + "]"
					if !seen[s] {
						seen[s] = true
						sites = append(sites, s)
					}
					break
				}
			}
		}
		r := ViolatedR("deadlock", fmt.Sprintf("certified deadlock: %d grip goroutines all blocked on channel/sync operations, identical in two snapshots, no monitor progress", len(g2)), map[string]interface{}{"blocked_sites": sites})
		return r
	}
	return InconclusiveR(fmt.Sprintf("watchdog fired after %s without a deadlock certificate (grip goroutines=%d, allBlocked=%v, progress %d->%d)", w.Prop.CaseTimeout, len(g2), allBlocked, p1, p2))
}

// waitsInOwnCode: the channel/sync operation a goroutine is blocked in was issued
// by grip (or harness) code. A goroutine that waits inside a library call (a
// Badger flush, a gRPC call) is woken by goroutines of that library, which the
// certificate does not look at: such a wait is never counted as blocked.
func waitsInOwnCode(g Goroutine) bool {
	for _, f := range g.Frames {
		if strings.HasPrefix(f, "runtime.") || strings.HasPrefix(f, "sync.") || strings.HasPrefix(f, "internal/") {
			continue
		}
		return strings.HasPrefix(f, gripPkg) || strings.HasPrefix(f, "main.") || strings.HasPrefix(f, "verifharness/")
	}
	return false
}

// peerWait: a goroutine in a select inside one of the property's PeerWaitFrames
// (a gRPC stream receive or flow-control wait whose peer lives in this process)
// can only be woken by another goroutine of the process; it counts as blocked.
func (w *Worker) peerWait(g Goroutine) bool {
	if !strings.HasPrefix(g.State, "select") || len(g.Frames) == 0 {
		return false
	}
	for _, p := range w.Prop.PeerWaitFrames {
		if strings.HasPrefix(g.Frames[0], p) {
			return true
		}
	}
	return false
}

// GripGoroutineCount is used by leak monitors.
func GripGoroutineCount(exclude ...string) (int, []Goroutine) {
	gs := GripGoroutines(ParseDump(dumpAll()))
	var out []Goroutine
outer:
	for _, g := range gs {
		for _, f := range g.Frames {
			for _, e := range exclude {
				if strings.Contains(f, e) {
					continue outer
				}
			}
		}
		out = append(out, g)
	}
	return len(out), out
}
