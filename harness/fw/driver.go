package fw

import (
	"bufio"
	"bytes"
	"crypto/sha1"
	"encoding/hex"
	"encoding/json"
	"fmt"
	"os"
	"os/exec"
	"path/filepath"
	"regexp"
	"sort"
	"strings"
	"sync"
	"time"
)

// Run is the state of one driver invocation.
type Run struct {
	Prop     *Property
	Tier     string
	Seed     int64
	Root     string // /verif
	OutDir   string
	Cases    []Case
	Results  map[int]*Result
	Known    []Finding
	Flaky    int
	Crashes  map[string]int
	RaceKeys map[string]int
	start    time.Time
	scratch  string
	mu       sync.Mutex
}

type Finding struct {
	ID       string   `json:"id"`
	Property string   `json:"property"`
	Status   string   `json:"status"` // known | fixed
	Key      string   `json:"key"`
	What     string   `json:"what"`
	Commit   string   `json:"commit,omitempty"`
	Avoid    []string `json:"avoid,omitempty"`
	Witness  *Case    `json:"witness,omitempty"`
	Note     string   `json:"note,omitempty"`
}

func loadFindings(root string) []Finding {
	b, err := os.ReadFile(filepath.Join(root, "KNOWN_FINDINGS.json"))
	if err != nil {
		return nil
	}
	var f struct {
		Findings []Finding `json:"findings"`
	}
	if err := json.Unmarshal(b, &f); err != nil {
		fmt.Fprintln(os.Stderr, "KNOWN_FINDINGS.json:", err)
		os.Exit(2)
	}
	return f.Findings
}

func envInt(name string, def int64) int64 {
	if s := os.Getenv(name); s != "" {
		var v int64
		if _, err := fmt.Sscan(s, &v); err == nil {
			return v
		}
	}
	return def
}

// DriverMain is the entry point of `verifrun run <prop> <tier> [--replay file]`.
func DriverMain(args []string) int {
	if len(args) < 2 {
		fmt.Fprintln(os.Stderr, "usage: verifrun run <prop> <quick|thorough> [--replay file]")
		return 2
	}
	p := Lookup(args[0])
	if p == nil {
		fmt.Fprintln(os.Stderr, "unknown property", args[0])
		return 2
	}
	root := os.Getenv("VERIF_ROOT")
	if root == "" {
		root = "/verif"
	}
	run := &Run{Prop: p, Tier: args[1], Seed: envInt("VERIF_SEED", 1), Root: root,
		Results: map[int]*Result{}, Crashes: map[string]int{}, RaceKeys: map[string]int{}, start: time.Now()}
	run.OutDir = filepath.Join(root, "out", p.ID)
	if old, _ := filepath.Glob(filepath.Join(run.OutDir, "replay", "*.json")); len(old) > 0 && len(args) == 2 {
		// replay files of earlier runs of this check are stale
		for _, f := range old {
			os.Remove(f)
		}
	}
	os.MkdirAll(filepath.Join(run.OutDir, "replay"), 0o755)
	scratchBase := os.Getenv("VERIF_SCRATCH")
	if scratchBase == "" {
		scratchBase = os.TempDir()
	}
	var err error
	run.scratch, err = os.MkdirTemp(scratchBase, "verif-"+p.ID+"-")
	if err != nil {
		fmt.Fprintln(os.Stderr, err)
		return 2
	}
	defer os.RemoveAll(run.scratch)

	for _, f := range loadFindings(root) {
		if f.Property == p.ID {
			run.Known = append(run.Known, f)
		}
	}
	replay := ""
	for i := 2; i < len(args); i++ {
		if args[i] == "--replay" && i+1 < len(args) {
			replay = args[i+1]
		}
	}
	if replay != "" {
		return run.replayFile(replay)
	}

	g := &GenCtx{Tier: run.Tier, Seed: run.Seed, Avoid: map[string]bool{}}
	for _, f := range run.Known {
		if f.Status == "known" {
			for _, a := range f.Avoid {
				g.Avoid[a] = true
			}
		}
	}
	cases := p.Gen(g)
	// Witnesses of known and fixed findings are permanent regression cases.
	for _, f := range run.Known {
		if f.Witness != nil {
			c := *f.Witness
			c.Witness = f.ID
			cases = append(cases, c)
		}
	}
	if lim := envInt("VERIF_LIMIT", 0); lim > 0 && int(lim) < len(cases) {
		// development aid: evenly spaced subset
		var sub []Case
		step := len(cases) / int(lim)
		for i := 0; i < len(cases); i += step {
			sub = append(sub, cases[i])
		}
		cases = sub
	}
	for i := range cases {
		cases[i].ID = i
	}
	run.Cases = cases
	fmt.Printf("[%s] tier=%s seed=%d cases=%d\n", p.ID, run.Tier, run.Seed, len(cases))
	run.execute(cases)
	return run.finish()
}

func (run *Run) workerBinary() string {
	self, _ := os.Executable()
	return self
}

// execute runs all cases through worker children, restarting after crashes.
func (run *Run) execute(cases []Case) {
	p := run.Prop
	type batch struct{ cases []Case }
	var batches []batch
	for i := 0; i < len(cases); i += p.BatchSize {
		j := i + p.BatchSize
		if j > len(cases) {
			j = len(cases)
		}
		batches = append(batches, batch{cases[i:j]})
	}
	ch := make(chan batch, len(batches))
	for _, b := range batches {
		ch <- b
	}
	close(ch)
	var wg sync.WaitGroup
	n := p.Parallel
	if v := envInt("VERIF_PARALLEL", 0); v > 0 {
		n = int(v)
	}
	for i := 0; i < n; i++ {
		wg.Add(1)
		go func(slot int) {
			defer wg.Done()
			seq := 0
			for b := range ch {
				rem := b.cases
				for len(rem) > 0 {
					seq++
					res := run.runBatch(fmt.Sprintf("w%d-%d", slot, seq), rem)
					run.mu.Lock()
					for i := range res {
						r := res[i]
						run.Results[r.ID] = &r
					}
					run.mu.Unlock()
					// drop everything up to and including the last reported case
					done := map[int]bool{}
					for _, r := range res {
						done[r.ID] = true
					}
					var next []Case
					for _, c := range rem {
						if !done[c.ID] {
							next = append(next, c)
						}
					}
					if len(next) == len(rem) {
						// no progress at all: give up on this batch
						for _, c := range next {
							r := Result{ID: c.ID, Status: Inconclusive, Msg: "worker made no progress"}
							run.mu.Lock()
							run.Results[c.ID] = &r
							run.mu.Unlock()
						}
						break
					}
					rem = next
				}
			}
		}(i)
	}
	wg.Wait()
}

var panicLine = regexp.MustCompile(`(?m)^(panic: .*|fatal error: .*)$`)

// CrashInfo extracts the panic message, class and first grip frame from a
// worker's stderr.
func CrashInfo(stderr string) (msg, class, site string) {
	idx := panicLine.FindAllStringIndex(stderr, -1)
	if len(idx) == 0 {
		return "", "", ""
	}
	last := idx[len(idx)-1]
	msg = stderr[last[0]:last[1]]
	rest := stderr[last[1]:]
	class = "other"
	switch {
	case strings.Contains(msg, "nil pointer dereference"):
		class = "nil-deref"
	case strings.Contains(msg, "index out of range"), strings.Contains(msg, "slice bounds out of range"):
		class = "index"
	case strings.Contains(msg, "interface conversion"):
		class = "type-assertion"
	case strings.Contains(msg, "close of closed channel"):
		class = "close-of-closed"
	case strings.Contains(msg, "close of nil channel"):
		class = "close-of-nil"
	case strings.Contains(msg, "send on closed channel"):
		class = "send-on-closed"
	case strings.Contains(msg, "concurrent map"):
		class = "concurrent-map"
	case strings.Contains(msg, "all goroutines are asleep"):
		class = "runtime-deadlock"
	case strings.Contains(msg, "checkptr"):
		class = "checkptr"
	case strings.Contains(msg, "divide by zero"):
		class = "div-zero"
	case strings.Contains(msg, "out of memory"), strings.Contains(msg, "makeslice"):
		class = "alloc"
	case strings.Contains(msg, "stack overflow"), strings.Contains(msg, "stack exceeds"):
		class = "stack-overflow"
	}
	// first goroutine block after the panic line: first grip frame
	for _, line := range strings.Split(rest, "\n") {
		if strings.HasPrefix(line, gripPkg) {
			f := line
			if i := strings.LastIndex(f, "("); i > 0 {
				f = f[:i]
			}
			site = strings.TrimPrefix(f, gripPkg)
			break
		}
		if strings.HasPrefix(line, "goroutine ") && site != "" {
			break
		}
	}
	if site == "" {
		site = "unknown"
	}
	return
}

func (run *Run) runBatch(name string, cases []Case) []Result {
	p := run.Prop
	dir := filepath.Join(run.scratch, name)
	os.MkdirAll(dir, 0o755)
	defer os.RemoveAll(dir)
	bf := filepath.Join(dir, "batch.jsonl")
	var buf bytes.Buffer
	for _, c := range cases {
		b, _ := json.Marshal(c)
		buf.Write(b)
		buf.WriteByte('\n')
	}
	os.WriteFile(bf, buf.Bytes(), 0o644)
	pf := filepath.Join(dir, "progress")
	logf := filepath.Join(dir, "log")
	lf, _ := os.Create(logf)
	cmd := exec.Command(run.workerBinary(), "worker", p.ID, run.Tier, fmt.Sprint(run.Seed), bf, pf, filepath.Join(dir, "tmp"))
	cmd.Stdout = lf
	cmd.Stderr = lf
	racePrefix := filepath.Join(dir, "race")
	cmd.Env = append(os.Environ(), "GORACE=halt_on_error=0 log_path="+racePrefix, "GOTRACEBACK=all")
	if p.WorkerProcs >= 0 {
		procs := p.WorkerProcs
		if procs == 0 {
			procs = 2
		}
		cmd.Env = append(cmd.Env, fmt.Sprintf("GOMAXPROCS=%d", procs))
	}
	if p.Env != nil && len(cases) > 0 {
		cmd.Env = append(cmd.Env, p.Env(cases[0])...)
	}
	// Overall batch watchdog: generous; per-case watchdogs live in the worker.
	limit := time.Duration(len(cases))*p.CaseTimeout + 2*time.Minute
	done := make(chan error, 1)
	if err := cmd.Start(); err != nil {
		lf.Close()
		return []Result{{ID: cases[0].ID, Status: Inconclusive, Msg: "cannot start worker: " + err.Error()}}
	}
	go func() { done <- cmd.Wait() }()
	var werr error
	killed := false
	select {
	case werr = <-done:
	case <-time.After(limit):
		cmd.Process.Signal(os.Interrupt)
		time.Sleep(100 * time.Millisecond)
		cmd.Process.Kill()
		werr = <-done
		killed = true
	}
	lf.Close()

	var results []Result
	begun := -1
	ended := map[int]bool{}
	if f, err := os.Open(pf); err == nil {
		sc := bufio.NewScanner(f)
		sc.Buffer(make([]byte, 1<<20), 512<<20)
		for sc.Scan() {
			line := sc.Text()
			if strings.HasPrefix(line, "BEGIN ") {
				fmt.Sscan(line[6:], &begun)
			} else if strings.HasPrefix(line, "END ") {
				rest := line[4:]
				sp := strings.IndexByte(rest, ' ')
				if sp < 0 {
					continue
				}
				var r Result
				if err := json.Unmarshal([]byte(rest[sp+1:]), &r); err == nil {
					results = append(results, r)
					ended[r.ID] = true
				}
			}
		}
		f.Close()
	}
	// race reports
	raceFiles, _ := filepath.Glob(racePrefix + ".*")
	for _, rf := range raceFiles {
		b, _ := os.ReadFile(rf)
		for _, rep := range ParseRaceLog(string(b)) {
			run.mu.Lock()
			run.RaceKeys[rep.Key]++
			if run.RaceKeys[rep.Key] == 1 {
				os.WriteFile(filepath.Join(run.OutDir, "race-"+hash(rep.Key)+".txt"), []byte(rep.Text), 0o644)
			}
			run.mu.Unlock()
		}
	}
	if werr != nil {
		// keep the worker's log of an abnormal exit (crash report, hang diagnosis)
		if lb, err := os.ReadFile(logf); err == nil {
			if len(lb) > 4<<20 {
				lb = lb[len(lb)-(4<<20):]
			}
			os.WriteFile(filepath.Join(run.OutDir, fmt.Sprintf("worker-%s-case%d.log", name, begun)), lb, 0o644)
		}
	}
	if werr != nil && begun >= 0 && !ended[begun] {
		// abnormal exit while executing case `begun`
		lb, _ := os.ReadFile(logf)
		log := string(lb)
		if i := strings.LastIndex(log, fmt.Sprintf("#### CASE %d BEGIN", begun)); i >= 0 {
			log = log[i:]
		}
		msg, class, site := CrashInfo(log)
		r := Result{ID: begun, Nontrivial: true, Crash: true}
		if killed {
			r.Status = Inconclusive
			r.Msg = "batch watchdog killed the worker"
		} else if msg == "" {
			r.Status = Inconclusive
			r.Msg = fmt.Sprintf("worker exited abnormally (%v) without a Go crash report", werr)
		} else {
			r.Status = Violated
			r.Key = "crash:" + site + ":" + class
			r.Msg = msg
			tail := log
			if len(tail) > 6000 {
				tail = tail[:6000]
			}
			r.Detail = J(map[string]string{"crash_report": tail})
		}
		results = append(results, r)
	}
	return results
}

func hash(s string) string {
	h := sha1.Sum([]byte(s))
	return hex.EncodeToString(h[:6])
}

// confirm re-executes one case alone in a fresh worker.
func (run *Run) confirm(c Case) Result {
	res := run.runBatch(fmt.Sprintf("confirm-%d", c.ID), []Case{c})
	for _, r := range res {
		if r.ID == c.ID {
			return r
		}
	}
	return Result{ID: c.ID, Status: Inconclusive, Msg: "no result on replay"}
}

func (run *Run) writeReplay(c Case, r *Result) string {
	path := filepath.Join(run.OutDir, "replay", fmt.Sprintf("%s-%s-seed%d-case%d.json", run.Prop.ID, run.Tier, run.Seed, c.ID))
	b, _ := json.MarshalIndent(map[string]interface{}{
		"property": run.Prop.ID, "tier": run.Tier, "seed": run.Seed, "case": c, "result": r,
	}, "", " ")
	os.WriteFile(path, b, 0o644)
	return path
}

func (run *Run) replayFile(path string) int {
	b, err := os.ReadFile(path)
	if err != nil {
		fmt.Fprintln(os.Stderr, err)
		return 2
	}
	var rf struct {
		Case Case  `json:"case"`
		Seed int64 `json:"seed"`
	}
	if err := json.Unmarshal(b, &rf); err != nil {
		fmt.Fprintln(os.Stderr, err)
		return 2
	}
	if rf.Seed != 0 {
		run.Seed = rf.Seed
	}
	r := run.confirm(rf.Case)
	out, _ := json.MarshalIndent(r, "", " ")
	fmt.Println(string(out))
	if r.Status == Violated {
		fmt.Printf("VIOLATION property=%s replay=%s\n", run.Prop.ID, path)
		return 1
	}
	return 0
}

// finish classifies results, confirms violations, prints the verdict lines
// and writes the evidence file.
func (run *Run) finish() int {
	p := run.Prop
	caseByID := map[int]Case{}
	for _, c := range run.Cases {
		caseByID[c.ID] = c
	}
	knownByKey := map[string]*Finding{}
	for i := range run.Known {
		f := &run.Known[i]
		if f.Status == "known" {
			knownByKey[f.Key] = f
		}
	}
	var ids []int
	for id := range run.Results {
		ids = append(ids, id)
	}
	sort.Ints(ids)
	counters := map[string]int64{}
	sets := map[string]map[string]bool{}
	distinct := map[string]bool{}
	evaluations := 0
	var inconclusive []string
	missing := 0
	for _, c := range run.Cases {
		if _, ok := run.Results[c.ID]; !ok {
			missing++
		}
	}
	type viol struct {
		c Case
		r *Result
	}
	var unlisted []viol
	knownSeen := map[string]int{}
	confirmBudget := map[string]int{}
	var samples []interface{}
	for _, id := range ids {
		r := run.Results[id]
		c := caseByID[id]
		evaluations++
		for k, v := range r.Counters {
			counters[k] += v
		}
		for k, vs := range r.Sets {
			if sets[k] == nil {
				sets[k] = map[string]bool{}
			}
			for _, v := range vs {
				sets[k][v] = true
			}
		}
		if r.Nontrivial {
			sig := r.Sig
			if sig == "" {
				sig = hash(c.Kind + string(c.Data))
			}
			distinct[sig] = true
		}
		switch r.Status {
		case Inconclusive:
			// retried once, alone, before being reported as inconclusive
			r2 := run.confirm(c)
			if r2.Status == Held {
				run.Flaky++
				*r = r2
			} else if r2.Status == Violated {
				*r = r2
			} else {
				inconclusive = append(inconclusive, fmt.Sprintf("case=%d reason=%s", id, r.Msg))
				fmt.Printf("INCONCLUSIVE property=%s case=%d reason=%s\n", p.ID, id, r.Msg)
			}
		}
		if r.Status == Violated {
			if r.Crash {
				run.Crashes[r.Key]++
			}
			if f, ok := knownByKey[r.Key]; ok {
				knownSeen[f.ID]++
				continue
			}
			// confirm by isolated replay (bounded per key)
			if confirmBudget[r.Key] < 3 {
				confirmBudget[r.Key]++
				r2 := run.confirm(c)
				if r2.Status != Violated && p.ScheduleDependent && !strings.Contains(r.Key, "deadlock") && !strings.Contains(r.Key, "livelock") && !strings.Contains(r.Key, "stall") && !strings.HasSuffix(r.Key, ":hang") {
					for i := 0; i < 4 && r2.Status != Violated; i++ {
						r2 = run.confirm(c)
					}
					if r2.Status != Violated {
						// the witness (history, final state) of the original run stands on its own
						r.Msg += " (schedule dependent: 5 isolated replays did not show it again; the recorded history is the witness)"
						run.Flaky++
						unlisted = append(unlisted, viol{c, r})
						continue
					}
				}
				if r2.Status != Violated {
					run.Flaky++
					inconclusive = append(inconclusive, fmt.Sprintf("case=%d reason=disagreement did not replay (%s)", id, r.Msg))
					fmt.Printf("INCONCLUSIVE property=%s case=%d reason=violation did not reproduce on isolated replay: %s\n", p.ID, id, r.Msg)
					r.Status = Inconclusive
					continue
				}
			}
			unlisted = append(unlisted, viol{c, r})
		}
	}
	// race reports: every report key must be listed
	var raceUnlisted []string
	for k := range run.RaceKeys {
		if f, ok := knownByKey["race:"+k]; ok {
			knownSeen[f.ID]++
		} else {
			raceUnlisted = append(raceUnlisted, k)
		}
	}
	sort.Strings(raceUnlisted)

	// samples: a few held nontrivial cases, spread over the case list
	step := len(ids)/5 + 1
	for i := 0; i < len(ids) && len(samples) < 6; i += step {
		for j := i; j < len(ids) && j < i+step; j++ {
			r := run.Results[ids[j]]
			if r.Nontrivial && r.Status == Held {
				c := caseByID[ids[j]]
				if p.Sample != nil {
					samples = append(samples, p.Sample(c, *r))
				} else {
					samples = append(samples, map[string]interface{}{"kind": c.Kind, "case": json.RawMessage(c.Data), "verdict": r.Status, "note": r.Msg})
				}
				break
			}
		}
	}

	exit := 0
	for _, f := range run.Known {
		if f.Status == "known" && knownSeen[f.ID] > 0 {
			fmt.Printf("KNOWN-FINDING: property=%s %s\n", p.ID, f.What)
		} else if f.Status == "known" {
			fmt.Printf("NOTE property=%s known finding %s was not reproduced by this run\n", p.ID, f.ID)
		}
	}
	printed := map[string]int{}
	for _, v := range unlisted {
		path := run.writeReplay(v.c, v.r)
		if printed[v.r.Key] < 3 {
			fmt.Printf("VIOLATION property=%s replay=%s\n", p.ID, path)
			fmt.Printf("  key=%s %s\n", v.r.Key, v.r.Msg)
		}
		printed[v.r.Key]++
		exit = 1
	}
	for _, k := range raceUnlisted {
		path := filepath.Join(run.OutDir, "race-"+hash(k)+".txt")
		fmt.Printf("VIOLATION property=%s replay=%s\n", p.ID, path)
		fmt.Printf("  key=race:%s (%d reports)\n", k, run.RaceKeys[k])
		exit = 1
	}
	if missing > 0 {
		fmt.Printf("INCONCLUSIVE property=%s %d cases produced no result\n", p.ID, missing)
	}

	cov := map[string]interface{}{
		"evaluations":             evaluations,
		"distinct_nontrivial":     len(distinct),
		"rule":                    p.Rule,
		"samples":                 samples,
		"exhaustive":              p.Exhaustive,
		"counters":                counters,
		"inconclusive":            inconclusive,
		"flaky":                   run.Flaky,
		"cases_without_result":    missing,
		"crash_sites":             run.Crashes,
		"race_report_keys":        run.RaceKeys,
		"unlisted_violation_keys": printed,
	}
	setSizes := map[string]int{}
	for k, m := range sets {
		setSizes[k] = len(m)
		if len(m) <= 40 {
			var l []string
			for v := range m {
				l = append(l, v)
			}
			sort.Strings(l)
			cov["set_"+k] = l
		}
	}
	cov["distinct_sets"] = setSizes
	var kf []map[string]interface{}
	var avoided []string
	for _, f := range run.Known {
		kf = append(kf, map[string]interface{}{"id": f.ID, "status": f.Status, "reproduced": knownSeen[f.ID], "key": f.Key})
		if f.Status == "known" {
			avoided = append(avoided, f.Avoid...)
		}
	}
	cov["known_findings"] = kf
	cov["avoided_regions"] = avoided
	if p.Post != nil {
		p.Post(run, cov)
	}
	if len(samples) == 0 {
		cov["samples"] = []interface{}{"no held non-trivial case in this run"}
	}
	ev := map[string]interface{}{
		"property_id": p.ID,
		"tier":        run.Tier,
		"seed":        run.Seed,
		"level":       p.Level,
		"coverage":    cov,
		"assumptions": p.Assumptions,
		"wall_s":      time.Since(run.start).Seconds(),
		"violations":  len(unlisted) + len(raceUnlisted),
	}
	b, _ := json.MarshalIndent(ev, "", " ")
	os.MkdirAll(filepath.Join(run.Root, "evidence"), 0o755)
	os.WriteFile(filepath.Join(run.Root, "evidence", p.ID+".json"), b, 0o644)
	fmt.Printf("[%s] evaluations=%d distinct_nontrivial=%d violations=%d known=%d inconclusive=%d flaky=%d wall=%.1fs\n",
		p.ID, evaluations, len(distinct), len(unlisted)+len(raceUnlisted), len(knownSeen), len(inconclusive), run.Flaky, time.Since(run.start).Seconds())
	if evaluations == 0 || len(distinct) < 2 {
		fmt.Printf("BROKEN property=%s the monitors observed nothing (evaluations=%d, distinct=%d)\n", p.ID, evaluations, len(distinct))
		return 1
	}
	return exit
}

// ---------------------------------------------------------------------------
// race-report parsing (DESIGN.md 3.5)

type RaceReport struct {
	Key  string
	Text string
}

func ParseRaceLog(log string) []RaceReport {
	var out []RaceReport
	blocks := strings.Split(log, "WARNING: DATA RACE")
	for _, b := range blocks[1:] {
		if i := strings.Index(b, "=================="); i >= 0 {
			b = b[:i]
		}
		// sections: the two accesses come first ("Write at"/"Read at"/"Previous write at"/"Previous read at")
		var firsts []string
		var cur []string
		inAccess := false
		flush := func() {
			if inAccess {
				f := "?"
				for _, l := range cur {
					if strings.HasPrefix(l, gripPkg) {
						f = strings.TrimPrefix(l, gripPkg)
						break
					}
				}
				if f == "?" && len(cur) > 0 {
					f = "ext:" + cur[0]
				}
				firsts = append(firsts, f)
			}
			cur = nil
		}
		for _, line := range strings.Split(b, "\n") {
			t := strings.TrimSpace(line)
			if strings.HasPrefix(t, "Write at") || strings.HasPrefix(t, "Read at") || strings.HasPrefix(t, "Previous write at") || strings.HasPrefix(t, "Previous read at") || strings.HasPrefix(t, "Atomic") || strings.HasPrefix(t, "Previous atomic") {
				flush()
				inAccess = true
				continue
			}
			if strings.HasPrefix(t, "Goroutine ") {
				flush()
				inAccess = false
				continue
			}
			if inAccess && t != "" && !strings.HasPrefix(line, "      ") {
				f := t
				if i := strings.LastIndex(f, "("); i > 0 {
					f = f[:i]
				}
				cur = append(cur, f)
			}
		}
		flush()
		sort.Strings(firsts)
		out = append(out, RaceReport{Key: strings.Join(firsts, " | "), Text: "WARNING: DATA RACE" + b})
	}
	return out
}
