// Package fw is the runtime-monitoring framework shared by all property
// checks: case lists, child-process workers, crash/hang attribution,
// confirmation replays, known findings, evidence files.
package fw

import (
	"encoding/json"
	"time"
)

// Case is one input / history / schedule explored by a check.
type Case struct {
	ID   int             `json:"id"`
	Kind string          `json:"kind"`
	Data json.RawMessage `json:"data"`
	// Witness marks a regression case that comes from KNOWN_FINDINGS.json.
	Witness string `json:"witness,omitempty"`
}

// Status values of a Result.
const (
	Held         = "held"
	Violated     = "violated"
	Inconclusive = "inconclusive"
)

// Result is the verdict of the oracle on one case, produced inside a worker
// (or by the driver when the worker died).
type Result struct {
	ID         int                 `json:"id"`
	Status     string              `json:"status"`
	Key        string              `json:"key,omitempty"` // finding key for a violation
	Msg        string              `json:"msg,omitempty"`
	Detail     json.RawMessage     `json:"detail,omitempty"`
	Nontrivial bool                `json:"nontrivial,omitempty"`
	Sig        string              `json:"sig,omitempty"` // distinctness signature
	Counters   map[string]int64    `json:"counters,omitempty"`
	Sets       map[string][]string `json:"sets,omitempty"` // named sets of observed things (merged as unions)
	Crash      bool                `json:"crash,omitempty"`
	// ExitAfter asks the worker to exit after reporting this result (its
	// process state is no longer trustworthy, e.g. a pipeline is still spinning).
	ExitAfter bool `json:"exit_after,omitempty"`
}

// GenCtx is what a case generator may depend on: nothing but tier and seed
// (and the avoid predicates of the known findings).
type GenCtx struct {
	Tier  string
	Seed  int64
	Avoid map[string]bool
}

func (g *GenCtx) Quick() bool { return g.Tier != "thorough" }

// Pick returns q for the quick tier and t for the thorough tier.
func (g *GenCtx) Pick(q, t int) int {
	if g.Quick() {
		return q
	}
	return t
}

// Property describes one check.
type Property struct {
	ID          string
	Level       string // evidence level: exploration | fault_enumeration
	Race        bool   // run workers from the -race binary
	Rule        string
	Assumptions []string
	Exhaustive  bool
	BatchSize   int
	Parallel    int           // max worker processes (default 16)
	WorkerProcs int           // GOMAXPROCS of a worker (0 = 2; -1 = leave alone)
	CaseTimeout time.Duration // watchdog per case (never a verdict by itself)
	// ScheduleDependent: violations of this property depend on the interleaving, so a violation whose
	// witness is a recorded history or a stored state stays a violation when isolated replays do not
	// show it again (hang diagnoses are excluded: they must reproduce).
	ScheduleDependent bool
	// PeerWaitFrames: top frames under which a goroutine in state "select" is waiting for a peer
	// inside the same process (loopback gRPC streams); used by the deadlock certificate only.
	PeerWaitFrames []string
	Env            func(c Case) []string
	Gen            func(g *GenCtx) []Case
	// Exec runs in a worker child process.
	Exec func(w *Worker, c Case) Result
	// Sample renders a case for the evidence file (default: the raw data).
	Sample func(c Case, r Result) interface{}
	// Post lets a check add derived coverage keys.
	Post func(run *Run, cov map[string]interface{})
}

var registry = map[string]*Property{}

func Register(p *Property) {
	if p.Level == "" {
		p.Level = "exploration"
	}
	if p.BatchSize == 0 {
		p.BatchSize = 100
	}
	if p.Parallel == 0 {
		p.Parallel = 16
	}
	if p.CaseTimeout == 0 {
		p.CaseTimeout = 120 * time.Second
	}
	registry[p.ID] = p
}

func Lookup(id string) *Property { return registry[id] }

func MkCase(kind string, data interface{}) Case {
	b, err := json.Marshal(data)
	if err != nil {
		panic(err)
	}
	return Case{Kind: kind, Data: b}
}

func (c Case) Decode(v interface{}) {
	if err := json.Unmarshal(c.Data, v); err != nil {
		panic("case decode: " + err.Error())
	}
}

func J(v interface{}) json.RawMessage {
	b, err := json.Marshal(v)
	if err != nil {
		b, _ = json.Marshal(map[string]string{"marshal_error": err.Error()})
	}
	return b
}

// HeldR / ViolatedR / InconclusiveR are small constructors.
func HeldR(nontrivial bool, sig string) Result {
	return Result{Status: Held, Nontrivial: nontrivial, Sig: sig}
}

func ViolatedR(key, msg string, detail interface{}) Result {
	return Result{Status: Violated, Key: key, Msg: msg, Detail: J(detail), Nontrivial: true}
}

func InconclusiveR(msg string) Result {
	return Result{Status: Inconclusive, Msg: msg}
}

func (r *Result) Count(name string, n int64) {
	if r.Counters == nil {
		r.Counters = map[string]int64{}
	}
	r.Counters[name] += n
}

func (r *Result) AddSet(name string, vals ...string) {
	if r.Sets == nil {
		r.Sets = map[string][]string{}
	}
	r.Sets[name] = append(r.Sets[name], vals...)
}
