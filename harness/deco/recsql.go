package deco

import (
	"context"
	"database/sql"
	"database/sql/driver"
	"fmt"
	"io"
	"strings"
	"sync"
)

// RecSQL is a recording database/sql driver: it captures the text and bound
// arguments of every statement and answers with canned (mostly empty) result
// sets, so that the SQL backends can be driven without a database.
type RecSQL struct {
	mu    sync.Mutex
	Stmts []RecStmt
}

type RecStmt struct {
	Kind  string // exec | query | prepare
	Query string
	Args  []interface{}
}

var (
	recMu   sync.Mutex
	recs    = map[string]*RecSQL{}
	recOnce sync.Once
	recN    int
)

type recDriver struct{}

func (recDriver) Open(name string) (driver.Conn, error) {
	recMu.Lock()
	r := recs[name]
	recMu.Unlock()
	if r == nil {
		return nil, fmt.Errorf("no recorder %s", name)
	}
	return &recConn{r}, nil
}

// NewRecSQL registers a recorder and opens a *sql.DB on it.
func NewRecSQL() (*RecSQL, *sql.DB) {
	recOnce.Do(func() { sql.Register("verifrec", recDriver{}) })
	recMu.Lock()
	recN++
	name := fmt.Sprintf("rec%d", recN)
	r := &RecSQL{}
	recs[name] = r
	recMu.Unlock()
	db, err := sql.Open("verifrec", name)
	if err != nil {
		panic(err)
	}
	return r, db
}

func (r *RecSQL) record(kind, q string, args []driver.NamedValue) {
	r.mu.Lock()
	defer r.mu.Unlock()
	var a []interface{}
	for _, v := range args {
		a = append(a, v.Value)
	}
	r.Stmts = append(r.Stmts, RecStmt{Kind: kind, Query: q, Args: a})
}

// Take returns and clears the recorded statements.
func (r *RecSQL) Take() []RecStmt {
	r.mu.Lock()
	defer r.mu.Unlock()
	out := r.Stmts
	r.Stmts = nil
	return out
}

type recConn struct{ r *RecSQL }

func (c *recConn) Prepare(q string) (driver.Stmt, error) {
	return &recStmt{c.r, q}, nil
}
func (c *recConn) Close() error              { return nil }
func (c *recConn) Begin() (driver.Tx, error) { return recTx{}, nil }

func (c *recConn) ExecContext(ctx context.Context, q string, args []driver.NamedValue) (driver.Result, error) {
	c.r.record("exec", q, args)
	return driver.RowsAffected(0), nil
}

func (c *recConn) QueryContext(ctx context.Context, q string, args []driver.NamedValue) (driver.Rows, error) {
	c.r.record("query", q, args)
	return cannedRows(q), nil
}

type recTx struct{}

func (recTx) Commit() error   { return nil }
func (recTx) Rollback() error { return nil }

type recStmt struct {
	r *RecSQL
	q string
}

func (s *recStmt) Close() error  { return nil }
func (s *recStmt) NumInput() int { return -1 }
func (s *recStmt) Exec(args []driver.Value) (driver.Result, error) {
	var nv []driver.NamedValue
	for i, a := range args {
		nv = append(nv, driver.NamedValue{Ordinal: i + 1, Value: a})
	}
	s.r.record("exec", s.q, nv)
	return driver.RowsAffected(0), nil
}
func (s *recStmt) Query(args []driver.Value) (driver.Rows, error) {
	var nv []driver.NamedValue
	for i, a := range args {
		nv = append(nv, driver.NamedValue{Ordinal: i + 1, Value: a})
	}
	s.r.record("query", s.q, nv)
	return cannedRows(s.q), nil
}

type recRows struct {
	cols []string
	rows [][]driver.Value
	i    int
}

func (r *recRows) Columns() []string { return r.cols }
func (r *recRows) Close() error      { return nil }
func (r *recRows) Next(dest []driver.Value) error {
	if r.i >= len(r.rows) {
		return io.EOF
	}
	copy(dest, r.rows[r.i])
	r.i++
	return nil
}

// cannedRows answers the psql graphs-table lookup with one row (so that
// GraphDB.Graph/DeleteGraph proceed) and everything else with no rows.
func cannedRows(q string) driver.Rows {
	lq := strings.ToLower(q)
	if strings.Contains(lq, "from graphs") && strings.Contains(lq, "select *") {
		return &recRows{cols: []string{"graph_name", "sanitized_graph_name", "vertex_table", "edge_table"},
			rows: [][]driver.Value{{"g", "g", "g_vertices", "g_edges"}}}
	}
	return &recRows{cols: []string{"gid", "label", "from", "to", "data"}}
}
