package deco

import (
	"bytes"
	"sync"

	"github.com/bmeg/grip/kvi"
)

// CrashSentinel is the panic value FaultKV raises to simulate the process
// dying before a top-level write.
type CrashSentinel struct{ Write int }

// FaultKV wraps a kvi.KVInterface, numbers the top-level writes of a call
// (Set, Delete, DeletePrefix, a committing Update, a committing BulkWrite -
// writes inside a transaction are one unit because the store commits them
// atomically) and can "crash" before the k-th one.
type FaultKV struct {
	kvi.KVInterface
	mu        sync.Mutex
	Writes    int      // top-level writes seen since Reset
	Kinds     []string // their kinds, in order
	CrashAt   int      // 1-based; 0 = never
	crashed   bool
	nestDepth int
}

func NewFaultKV(kv kvi.KVInterface) *FaultKV { return &FaultKV{KVInterface: kv} }

func (f *FaultKV) Reset(crashAt int) {
	f.mu.Lock()
	defer f.mu.Unlock()
	f.Writes, f.Kinds, f.CrashAt, f.crashed = 0, nil, crashAt, false
}

func (f *FaultKV) before(kind string) {
	f.mu.Lock()
	if f.crashed {
		f.mu.Unlock()
		panic(CrashSentinel{Write: f.Writes})
	}
	f.Writes++
	f.Kinds = append(f.Kinds, kind)
	if f.CrashAt > 0 && f.Writes == f.CrashAt {
		f.crashed = true
		f.mu.Unlock()
		panic(CrashSentinel{Write: f.Writes})
	}
	f.mu.Unlock()
}

func (f *FaultKV) Set(key, value []byte) error {
	f.before("Set")
	return f.KVInterface.Set(key, value)
}

func (f *FaultKV) Delete(key []byte) error {
	f.before("Delete")
	return f.KVInterface.Delete(key)
}

func (f *FaultKV) DeletePrefix(prefix []byte) error {
	f.before("DeletePrefix")
	return f.KVInterface.DeletePrefix(prefix)
}

func (f *FaultKV) Update(u func(tx kvi.KVTransaction) error) error {
	// a transaction that performs no write is a read (kvindex uses Update for
	// lazily recounting); it is counted only if it writes
	wrote := false
	return f.KVInterface.Update(func(tx kvi.KVTransaction) error {
		return u(&countingTx{KVTransaction: tx, onWrite: func() {
			if !wrote {
				wrote = true
				f.before("Update")
			}
		}})
	})
}

func (f *FaultKV) BulkWrite(u func(bl kvi.KVBulkWrite) error) error {
	wrote := false
	return f.KVInterface.BulkWrite(func(bl kvi.KVBulkWrite) error {
		return u(&countingBulk{KVBulkWrite: bl, onWrite: func() {
			if !wrote {
				wrote = true
				f.before("BulkWrite")
			}
		}})
	})
}

type countingTx struct {
	kvi.KVTransaction
	onWrite func()
}

func (c *countingTx) Set(k, v []byte) error { c.onWrite(); return c.KVTransaction.Set(k, v) }
func (c *countingTx) Delete(k []byte) error { c.onWrite(); return c.KVTransaction.Delete(k) }

type countingBulk struct {
	kvi.KVBulkWrite
	onWrite func()
}

func (c *countingBulk) Set(k, v []byte) error { c.onWrite(); return c.KVBulkWrite.Set(k, v) }

// DumpKeys returns every raw key (diagnostic aid for disagreements).
func DumpKeys(kv kvi.KVInterface) [][]byte {
	var out [][]byte
	kv.View(func(it kvi.KVIterator) error {
		for it.Seek([]byte{0}); it.Valid(); it.Next() {
			out = append(out, append([]byte{}, it.Key()...))
		}
		return nil
	})
	return out
}

// PrintableKey renders a raw key with separators visible.
func PrintableKey(k []byte) string {
	return string(bytes.ReplaceAll(bytes.ReplaceAll(k, []byte{0}, []byte("|")), []byte{1}, []byte("^")))
}
