// Package deco holds decorators the harness interposes at interfaces bmeg/grip
// already has (gdbi.GraphInterface, kvi.KVInterface, database/sql driver).
package deco

import (
	"context"

	"github.com/bmeg/grip/engine/core"
	"github.com/bmeg/grip/gdbi"
)

// LoadMode selects what a GraphLoad decorator does with the `load` hint.
type LoadMode int

const (
	// ForceLoad turns every load hint into true: the literal, fully loaded engine.
	ForceLoad LoadMode = iota
	// HonourHint returns elements with Data=nil, Loaded=false whenever the
	// caller passed load=false - what the Mongo, SQL and Elastic drivers do.
	HonourHint
)

// GraphLoad wraps a gdbi.GraphInterface.
type GraphLoad struct {
	gdbi.GraphInterface
	Mode       LoadMode
	Optimizers []core.QueryOptimizer
}

func (g *GraphLoad) Compiler() gdbi.Compiler {
	return core.NewCompiler(g, g.Optimizers...)
}

func (g *GraphLoad) ld(load bool) bool {
	if g.Mode == ForceLoad {
		return true
	}
	return load
}

func (g *GraphLoad) strip(e *gdbi.DataElement, load bool) *gdbi.DataElement {
	if e == nil || g.Mode != HonourHint || load {
		return e
	}
	return &gdbi.DataElement{ID: e.ID, Label: e.Label, From: e.From, To: e.To, Loaded: false}
}

func (g *GraphLoad) GetVertex(key string, load bool) *gdbi.Vertex {
	return g.strip(g.GraphInterface.GetVertex(key, g.ld(load)), load)
}

func (g *GraphLoad) GetEdge(key string, load bool) *gdbi.Edge {
	return g.strip(g.GraphInterface.GetEdge(key, g.ld(load)), load)
}

func (g *GraphLoad) GetVertexList(ctx context.Context, load bool) <-chan *gdbi.Vertex {
	in := g.GraphInterface.GetVertexList(ctx, g.ld(load))
	out := make(chan *gdbi.Vertex, 100)
	go func() {
		defer close(out)
		for v := range in {
			out <- g.strip(v, load)
		}
	}()
	return out
}

func (g *GraphLoad) GetEdgeList(ctx context.Context, load bool) <-chan *gdbi.Edge {
	in := g.GraphInterface.GetEdgeList(ctx, g.ld(load))
	out := make(chan *gdbi.Edge, 100)
	go func() {
		defer close(out)
		for v := range in {
			out <- g.strip(v, load)
		}
	}()
	return out
}

func (g *GraphLoad) stripLookups(in chan gdbi.ElementLookup, load bool) chan gdbi.ElementLookup {
	if g.Mode != HonourHint || load {
		return in
	}
	out := make(chan gdbi.ElementLookup, 100)
	go func() {
		defer close(out)
		for l := range in {
			l.Vertex = g.strip(l.Vertex, load)
			l.Edge = g.strip(l.Edge, load)
			out <- l
		}
	}()
	return out
}

func (g *GraphLoad) GetVertexChannel(ctx context.Context, req chan gdbi.ElementLookup, load bool) chan gdbi.ElementLookup {
	return g.stripLookups(g.GraphInterface.GetVertexChannel(ctx, req, g.ld(load)), load)
}

func (g *GraphLoad) GetOutChannel(ctx context.Context, req chan gdbi.ElementLookup, load bool, emitNull bool, edgeLabels []string) chan gdbi.ElementLookup {
	return g.stripLookups(g.GraphInterface.GetOutChannel(ctx, req, g.ld(load), emitNull, edgeLabels), load)
}

func (g *GraphLoad) GetInChannel(ctx context.Context, req chan gdbi.ElementLookup, load bool, emitNull bool, edgeLabels []string) chan gdbi.ElementLookup {
	return g.stripLookups(g.GraphInterface.GetInChannel(ctx, req, g.ld(load), emitNull, edgeLabels), load)
}

func (g *GraphLoad) GetOutEdgeChannel(ctx context.Context, req chan gdbi.ElementLookup, load bool, emitNull bool, edgeLabels []string) chan gdbi.ElementLookup {
	return g.stripLookups(g.GraphInterface.GetOutEdgeChannel(ctx, req, g.ld(load), emitNull, edgeLabels), load)
}

func (g *GraphLoad) GetInEdgeChannel(ctx context.Context, req chan gdbi.ElementLookup, load bool, emitNull bool, edgeLabels []string) chan gdbi.ElementLookup {
	return g.stripLookups(g.GraphInterface.GetInEdgeChannel(ctx, req, g.ld(load), emitNull, edgeLabels), load)
}
