// Package mon holds the runtime monitors that are fed by the verifhook taps
// compiled into bmeg/grip with the build tag `verif`: an event recorder with
// one lock and one sequence counter, and the delay injector that widens the
// set of interleavings a run can show.
package mon

import (
	"crypto/sha1"
	"encoding/hex"
	"math/rand"
	"runtime"
	"strings"
	"sync"
	"time"

	"github.com/bmeg/grip/verifhook"
)

type Event struct {
	Seq  int64
	Site string
	A, B int64
}

// Recorder is the only monitor state touched from engine goroutines; it is
// updated under its own lock at the call site of the state change it shadows.
type Recorder struct {
	mu     sync.Mutex
	seq    int64
	events []Event
	counts map[string]int64
	keep   int
}

var global = &Recorder{counts: map[string]int64{}, keep: 200000}

// Install connects the recorder to the verifhook taps.
func Install() *Recorder {
	verifhook.SetEmit(global.emit)
	return global
}

func (r *Recorder) emit(site string, a, b int64) {
	r.mu.Lock()
	r.seq++
	r.counts[site]++
	if len(r.events) < r.keep {
		r.events = append(r.events, Event{r.seq, site, a, b})
	}
	r.mu.Unlock()
}

func (r *Recorder) Reset() {
	r.mu.Lock()
	r.seq = 0
	r.events = nil
	r.counts = map[string]int64{}
	r.mu.Unlock()
}

func (r *Recorder) Counts() map[string]int64 {
	r.mu.Lock()
	defer r.mu.Unlock()
	out := map[string]int64{}
	for k, v := range r.counts {
		out[k] = v
	}
	return out
}

func (r *Recorder) Events() []Event {
	r.mu.Lock()
	defer r.mu.Unlock()
	return append([]Event{}, r.events...)
}

func (r *Recorder) Seq() int64 {
	r.mu.Lock()
	defer r.mu.Unlock()
	return r.seq
}

// Signature hashes the projected event order (site names, run-length
// encoded, first n events): two runs with different signatures went through
// observably different interleavings.
func Signature(events []Event, n int) string {
	var sb strings.Builder
	last := ""
	run := 0
	for i, e := range events {
		if i >= n {
			break
		}
		if e.Site == last {
			run++
			continue
		}
		if last != "" {
			sb.WriteString(last)
			if run > 1 {
				sb.WriteString("*")
			}
			sb.WriteString(";")
		}
		last, run = e.Site, 1
	}
	sb.WriteString(last)
	h := sha1.Sum([]byte(sb.String()))
	return hex.EncodeToString(h[:8])
}

// TailSpin reports how many trailing events are `site` with none of the
// `other` sites in between (livelock certificate: a count of logical steps).
func TailSpin(events []Event, site string, other map[string]bool) int {
	n := 0
	for i := len(events) - 1; i >= 0; i-- {
		if events[i].Site == site {
			n++
			continue
		}
		if other[events[i].Site] {
			break
		}
	}
	return n
}

// Profile is a schedule profile for the Point taps.
type Profile struct {
	Kind   string  `json:"kind"` // none | yield | sleep | random
	Site   string  `json:"site,omitempty"`
	Micros int     `json:"micros,omitempty"`
	P      float64 `json:"p,omitempty"`
	Seed   int64   `json:"seed,omitempty"`
}

func (p Profile) String() string {
	switch p.Kind {
	case "sleep":
		return "sleep@" + p.Site
	case "random":
		return "random"
	}
	if p.Kind == "" {
		return "none"
	}
	return p.Kind
}

// InstallProfile sets the delay injector for the next run.
func InstallProfile(p Profile) {
	switch p.Kind {
	case "", "none":
		verifhook.SetPoint(nil)
	case "yield":
		verifhook.SetPoint(func(string) { runtime.Gosched() })
	case "sleep":
		d := time.Duration(p.Micros) * time.Microsecond
		verifhook.SetPoint(func(site string) {
			if site == p.Site {
				time.Sleep(d)
			}
		})
	case "random":
		var mu sync.Mutex
		rng := rand.New(rand.NewSource(p.Seed))
		verifhook.SetPoint(func(site string) {
			mu.Lock()
			hit := rng.Float64() < p.P
			d := time.Duration(rng.Intn(p.Micros+1)) * time.Microsecond
			mu.Unlock()
			if hit {
				if d == 0 {
					runtime.Gosched()
				} else {
					time.Sleep(d)
				}
			}
		})
	}
}
