package main

import (
	"context"
	"encoding/json"
	"fmt"
	"runtime"
	"time"

	"github.com/bmeg/grip/engine/queue"
	"github.com/bmeg/grip/gdbi"
	"github.com/bmeg/grip/gripper"
	"github.com/bmeg/grip/jobstorage"

	"verifharness/fw"
	"verifharness/mon"
)

// C13 – internal stream combinators preserve order and multiplicity.

type c13Case struct {
	Comb    string      `json:"comb"` // marshal unmarshal roundtrip mux batcher dual queue
	N       int         `json:"n"`
	Workers int         `json:"workers,omitempty"`
	Batch   int         `json:"batch,omitempty"`
	Timeout int         `json:"timeout_us,omitempty"`
	Pipes   int         `json:"pipes,omitempty"`
	Pattern string      `json:"pattern,omitempty"` // mux put pattern / dual loader pattern / slow-worker pattern
	Procs   int         `json:"procs"`
	Profile mon.Profile `json:"profile"`
}

var c13Ns = []int{0, 1, 2, 3, 4, 5, 7, 8, 9, 10, 11, 39, 40, 41, 49, 50, 51, 99, 100, 101, 249, 250, 251, 5000}

func c13Profiles(comb string) []mon.Profile {
	sites := map[string][]string{
		"marshal": {"marshal.worker"}, "unmarshal": {"unmarshal.worker"}, "roundtrip": {"marshal.worker", "unmarshal.worker"},
		"mux": {"mux.run"}, "batcher": {"batcher.loop"}, "dual": {"dual.load", "dual.deserialize"}, "queue": {"queue.out", "queue.input_closed"},
	}
	ps := []mon.Profile{{Kind: "none"}, {Kind: "yield"}, {Kind: "random", P: 0.3, Micros: 100, Seed: 7}}
	for _, s := range sites[comb] {
		ps = append(ps, mon.Profile{Kind: "sleep", Site: s, Micros: 200})
	}
	return ps
}

func c13Gen(g *fw.GenCtx) []fw.Case {
	var cases []fw.Case
	procs := []int{1, 2, 16}
	k := 0
	add := func(c c13Case) {
		for _, pf := range c13Profiles(c.Comb) {
			k++
			if c.N >= 5000 && pf.Kind == "sleep" {
				pf.Micros = 20
			}
			if g.Quick() && k%3 != 0 && c.N > 11 {
				continue
			}
			c.Profile = pf
			c.Procs = procs[k%3]
			cases = append(cases, fw.MkCase("stream", c))
			if !g.Quick() {
				c.Procs = procs[(k+1)%3]
				cases = append(cases, fw.MkCase("stream", c))
			}
		}
	}
	for _, n := range c13Ns {
		for _, w := range []int{1, 2, 3, 4, 5, 8} {
			for _, pat := range []string{"", "slow0", "slow-last", "alternate"} {
				if pat != "" && (n > 300 || w == 1) {
					continue
				}
				add(c13Case{Comb: "marshal", N: n, Workers: w, Pattern: pat})
			}
			add(c13Case{Comb: "unmarshal", N: n, Workers: w})
			if n > 5 && n <= 300 {
				// one item that cannot be encoded / decoded: its neighbours keep their places
				add(c13Case{Comb: "marshal", N: n, Workers: w, Pattern: "poison5"})
				add(c13Case{Comb: "unmarshal", N: n, Workers: w, Pattern: "poison5"})
			}
			if w == 4 {
				add(c13Case{Comb: "roundtrip", N: n, Workers: w})
			}
		}
		for _, pipes := range []int{1, 2, 3, 4} {
			for _, pat := range []string{"round-robin", "blocks", "one-pipe", "reverse", "slow-pipe0"} {
				add(c13Case{Comb: "mux", N: n, Pipes: pipes, Pattern: pat})
			}
		}
		for _, b := range []int{1, 2, 50, 100} {
			for _, to := range []int{1, 1000} {
				add(c13Case{Comb: "batcher", N: n, Batch: b, Timeout: to})
			}
		}
		for _, pat := range []string{"one", "zero-one-many", "many", "signals"} {
			add(c13Case{Comb: "dual", N: n, Pattern: pat})
		}
		add(c13Case{Comb: "queue", N: n})
		add(c13Case{Comb: "queue", N: n, Pattern: "slow-consumer"})
	}
	return cases
}

// slowTraveler makes one serializer worker slower than the others.
type slowTraveler struct {
	gdbi.BaseTraveler
	delay  time.Duration
	poison bool
}

func (s *slowTraveler) MarshalJSON() ([]byte, error) {
	if s.poison {
		return nil, fmt.Errorf("this traveler cannot be encoded")
	}
	if s.delay > 0 {
		time.Sleep(s.delay)
	}
	return json.Marshal(&s.BaseTraveler)
}

func seqCheck(name string, got []int, n int) string { return seqCheckExcept(name, got, n, -1) }

// seqCheckExcept: position skip holds an item that cannot be encoded/decoded; whatever stands for it
// in the output, it must stand in its place and the other items must keep theirs.
func seqCheckExcept(name string, got []int, n int, skip int) string {
	if len(got) != n {
		return fmt.Sprintf("%s: %d items out for %d items in", name, len(got), n)
	}
	for i, v := range got {
		if i == skip {
			continue
		}
		if v != i {
			return fmt.Sprintf("%s: position %d holds item %d (input order is 0..%d)", name, i, v, n-1)
		}
	}
	return ""
}

func c13Exec(w *fw.Worker, c fw.Case) fw.Result {
	var cc c13Case
	c.Decode(&cc)
	old := runtime.GOMAXPROCS(cc.Procs)
	defer runtime.GOMAXPROCS(old)
	mon.InstallProfile(cc.Profile)
	defer mon.InstallProfile(mon.Profile{})
	res := fw.HeldR(cc.N > 0, "")
	res.AddSet("combinators", cc.Comb)
	res.AddSet("profiles", cc.Profile.String())
	res.Count("items", int64(cc.N))
	n := cc.N
	var msg string
	delayFor := func(i int) time.Duration {
		switch cc.Pattern {
		case "slow0":
			if i%cc.Workers == 0 {
				return 300 * time.Microsecond
			}
		case "slow-last":
			if i%cc.Workers == cc.Workers-1 {
				return 300 * time.Microsecond
			}
		case "alternate":
			if i%2 == 0 {
				return 100 * time.Microsecond
			}
		}
		return 0
	}
	switch cc.Comb {
	case "marshal", "roundtrip":
		in := make(chan gdbi.Traveler, 5)
		go func() {
			for i := 0; i < n; i++ {
				in <- &slowTraveler{BaseTraveler: gdbi.BaseTraveler{Count: uint32(i)}, delay: delayFor(i), poison: cc.Pattern == "poison5" && i == 5}
			}
			close(in)
		}()
		bytesOut := jobstorage.MarshalStream(in, cc.Workers)
		var got []int
		if cc.Comb == "marshal" {
			for b := range bytesOut {
				t := gdbi.BaseTraveler{}
				if err := json.Unmarshal(b, &t); err != nil && !(cc.Pattern == "poison5" && len(got) == 5) {
					msg = "marshal: output is not JSON: " + err.Error()
				}
				got = append(got, int(t.Count))
			}
		} else {
			for t := range jobstorage.UnmarshalStream(bytesOut, cc.Workers) {
				got = append(got, int(t.GetCount()))
			}
		}
		if msg == "" {
			skip := -1
			if cc.Pattern == "poison5" {
				skip = 5
			}
			msg = seqCheckExcept(cc.Comb, got, n, skip)
		}
	case "unmarshal":
		in := make(chan []byte, 5)
		go func() {
			for i := 0; i < n; i++ {
				b, _ := json.Marshal(&gdbi.BaseTraveler{Count: uint32(i)})
				if cc.Pattern == "poison5" && i == 5 {
					b = []byte(`{"broken`)
				}
				in <- b
			}
			close(in)
		}()
		var got []int
		for t := range jobstorage.UnmarshalStream(in, cc.Workers) {
			got = append(got, int(t.GetCount()))
		}
		skip := -1
		if cc.Pattern == "poison5" {
			skip = 5
		}
		msg = seqCheckExcept("unmarshal", got, n, skip)
	case "mux":
		m := gripper.NewChannelMux()
		for p := 0; p < cc.Pipes; p++ {
			pin := make(chan interface{}, gripper.QueueSize)
			pout := make(chan interface{}, gripper.QueueSize)
			slow := cc.Pattern == "slow-pipe0" && p == 0
			go func() {
				defer close(pout)
				for v := range pin {
					if slow {
						time.Sleep(50 * time.Microsecond)
					}
					pout <- v
				}
			}()
			m.AddPipeline(pin, pout)
		}
		go func() {
			for i := 0; i < n; i++ {
				p := 0
				switch cc.Pattern {
				case "round-robin", "slow-pipe0":
					p = i % cc.Pipes
				case "blocks":
					p = (i / 7) % cc.Pipes
				case "reverse":
					p = cc.Pipes - 1 - i%cc.Pipes
				}
				m.Put(p, i)
			}
			m.Close()
		}()
		var got []int
		for v := range m.GetOutChannel() {
			got = append(got, v.(int))
		}
		msg = seqCheck("mux", got, n)
	case "batcher":
		in := make(chan gdbi.ElementLookup, 5)
		go func() {
			for i := 0; i < n; i++ {
				in <- gdbi.ElementLookup{ID: fmt.Sprint(i)}
				if i%17 == 0 {
					time.Sleep(time.Duration(cc.Timeout) * time.Microsecond)
				}
			}
			close(in)
		}()
		var got []int
		sizes := map[int]int{}
		for b := range gdbi.LookupBatcher(in, cc.Batch, time.Duration(cc.Timeout)*time.Microsecond) {
			sizes[len(b)]++
			for _, e := range b {
				var v int
				fmt.Sscan(e.ID, &v)
				got = append(got, v)
			}
		}
		msg = seqCheck("batcher", got, n)
		for s := range sizes {
			res.AddSet("batch_sizes_seen", fmt.Sprint(s))
		}
	case "dual":
		in := make(chan gdbi.ElementLookup, 5)
		var want []string
		fanout := func(i int) int {
			switch cc.Pattern {
			case "one", "signals":
				return 1
			case "many":
				return 3
			}
			return i % 3 // zero-one-many
		}
		isSig := func(i int) bool { return cc.Pattern == "signals" && i%5 == 2 }
		for i := 0; i < n; i++ {
			if isSig(i) {
				want = append(want, fmt.Sprintf("sig%d", i))
				continue
			}
			for j := 0; j < fanout(i); j++ {
				want = append(want, fmt.Sprintf("%d/%d", i, j))
			}
		}
		go func() {
			for i := 0; i < n; i++ {
				if isSig(i) {
					in <- gdbi.ElementLookup{ID: fmt.Sprintf("sig%d", i), Ref: &gdbi.BaseTraveler{Signal: &gdbi.Signal{ID: i}}}
				} else {
					in <- gdbi.ElementLookup{ID: fmt.Sprint(i)}
				}
			}
			close(in)
		}()
		loader := func(req gdbi.ElementLookup, load bool) chan interface{} {
			var i int
			fmt.Sscan(req.ID, &i)
			o := make(chan interface{}, 3)
			for j := 0; j < fanout(i); j++ {
				o <- j
			}
			close(o)
			return o
		}
		deser := func(req gdbi.ElementLookup, data interface{}) gdbi.ElementLookup {
			req.ID = fmt.Sprintf("%s/%d", req.ID, data.(int))
			return req
		}
		var got []string
		for o := range gdbi.DualProcessor(context.Background(), in, true, loader, deser) {
			got = append(got, o.ID)
		}
		if len(got) != len(want) {
			msg = fmt.Sprintf("dual: %d items out, expected %d", len(got), len(want))
		} else {
			for i := range got {
				if got[i] != want[i] {
					msg = fmt.Sprintf("dual: position %d holds %s, expected %s", i, got[i], want[i])
					break
				}
			}
		}
	case "queue":
		q := queue.New()
		go func() {
			for i := 0; i < n; i++ {
				q.GetInput() <- &gdbi.BaseTraveler{Count: uint32(i)}
			}
			close(q.GetInput())
		}()
		var got []int
		for t := range q.GetOutput() {
			if cc.Pattern == "slow-consumer" && len(got)%50 == 0 {
				time.Sleep(200 * time.Microsecond)
			}
			got = append(got, int(t.GetCount()))
		}
		msg = seqCheck("queue", got, n)
	}
	if msg != "" {
		return fw.ViolatedR(cc.Comb+":order-or-multiplicity", fmt.Sprintf("%s (n=%d workers=%d batch=%d pipes=%d pattern=%s GOMAXPROCS=%d %s)", msg, cc.N, cc.Workers, cc.Batch, cc.Pipes, cc.Pattern, cc.Procs, cc.Profile), cc)
	}
	return res
}

func init() {
	fw.Register(&fw.Property{
		ID:                "C13",
		Race:              true,
		ScheduleDependent: true,
		WorkerProcs:       -1,
		Rule:              "each combinator is driven directly with items carrying unique sequence numbers: MarshalStream and UnmarshalStream (and both chained) with 1,2,3,4,5,8 workers and slow-worker patterns (a custom traveler whose MarshalJSON sleeps) and one item that cannot be encoded / one record that is not JSON, ChannelMux with 1-4 pipelines and 5 Put patterns incl. a slow pipeline, LookupBatcher with batch sizes 1,2,50,100 and timeouts 1us/1ms, DualProcessor with loaders returning 0/1/many items and interleaved signals, queue.New with fast and slow consumers; input lengths 0,1,2,3,4,5,7,8,9,10,11,39,40,41,49,50,51,99,100,101,249,250,251,5000; delay profiles at the verifhook points inside the worker loops (none, yield, random, a sleep at each site), GOMAXPROCS in {1,2,16}, -race build. Oracle: output sequence == input sequence (loss, duplication and reordering are each visible) and the output channel closes (a range loop over it ends; otherwise the deadlock certificate). Non-trivial = at least one item.",
		Assumptions: []string{
			"batch sizes of the LookupBatcher are recorded, not judged (the property does not constrain them)",
			"ChannelMux.Put is called from one goroutine, as in its only caller",
		},
		BatchSize:   60,
		CaseTimeout: 90 * time.Second,
		Gen:         c13Gen,
		Exec:        c13Exec,
	})
}
