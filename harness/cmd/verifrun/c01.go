package main

import (
	"context"
	"encoding/json"
	"fmt"
	"math/rand"
	"strings"
	"time"

	"github.com/bmeg/grip/engine/core"
	"github.com/bmeg/grip/gdbi"
	"github.com/bmeg/grip/gripql"
	"github.com/bmeg/grip/util/protoutil"
	"google.golang.org/protobuf/types/known/structpb"

	"verifharness/deco"
	"verifharness/fw"
	"verifharness/gq"
	"verifharness/model"
)

// C01 – traversal results equal the documented step-by-step semantics.

// ---------------------------------------------------------------------------
// graphs

type tGraph struct {
	Name string
	V    []*model.Elem
	E    []*model.Elem
}

func (t *tGraph) Model() *model.Graph {
	g := model.NewGraph()
	for _, v := range t.V {
		g.V[v.ID] = v.Clone()
	}
	for _, e := range t.E {
		g.E[e.ID] = e.Clone()
	}
	return g
}

var richData = []M{
	nil,
	{"p": 1.0, "s": "x", "l": []interface{}{1.0, "a", nil}, "n": M{"k": 2.0, "d": M{"e": "deep"}}, "z": nil, "b": true},
	{"p": 2.0, "s": "y", "l": []interface{}{}, "n": M{"k": "2"}},
	{"p": "1", "s": "x", "l": "notalist", "P": "label-as-key"},
	{"p": -1.5, "l": []interface{}{[]interface{}{1.0}, M{"q": 1.0}}, "b": false},
	{"s": "", "p": 1.0},
}

// c01Library is the fixed hostile library of DESIGN.md C01.
func c01Library() []*tGraph {
	d := richData
	return []*tGraph{
		{Name: "empty"},
		{Name: "single", V: []*model.Elem{mv("a", "P", d[1])}},
		{Name: "selfloop", V: []*model.Elem{mv("a", "P", d[1])}, E: []*model.Elem{me("e1", "r", "a", "a", M{"p": 1.0})}},
		{Name: "parallel", V: []*model.Elem{mv("a", "P", d[1]), mv("b", "Q", d[2])},
			E: []*model.Elem{me("e1", "r", "a", "b", d[5]), me("e2", "r", "a", "b", M{"p": 2.0}), me("e3", "s", "a", "b", nil), me("e4", "s", "b", "a", d[1])}},
		{Name: "dangling", V: []*model.Elem{mv("a", "P", d[1]), mv("b", "P", d[3])},
			E: []*model.Elem{me("e1", "r", "a", "zz", nil), me("e2", "s", "yy", "a", d[2]), me("e3", "r", "xx", "ww", nil), me("e4", "r", "a", "b", d[4])}},
		{Name: "isolated", V: []*model.Elem{mv("a", "P", d[1]), mv("b", "Q", nil), mv("c", "r", d[3])}, E: []*model.Elem{me("e1", "P", "a", "a", nil)}},
		{Name: "triangle", V: []*model.Elem{mv("a", "P", d[1]), mv("b", "Q", d[2]), mv("c", "P", d[4])},
			E: []*model.Elem{me("e1", "r", "a", "b", d[1]), me("e2", "s", "b", "c", d[2]), me("e3", "r", "c", "a", nil), me("e4", "s", "a", "c", d[5])}},
		{Name: "deepfan", V: []*model.Elem{mv("a", "P", d[1]), mv("b", "Q", d[2]), mv("c", "P", d[4]), mv("d", "Q", d[5])},
			E: []*model.Elem{me("e1", "r", "a", "b", nil), me("e2", "s", "a", "c", d[1]), me("e3", "r", "b", "c", nil), me("e4", "s", "b", "d", d[2]), me("e5", "r", "c", "d", nil),
				me("e6", "s", "c", "a", nil), me("e7", "r", "d", "a", d[3]), me("e8", "s", "d", "b", nil)}},
		{Name: "prefixlabels", V: []*model.Elem{mv("a", "P", d[1]), mv("b", "PP", d[2]), mv("c", "Pr", d[4]), mv("d", "Q", d[5])},
			E: []*model.Elem{me("e1", "r", "a", "b", nil), me("e2", "rr", "a", "c", d[1]), me("e3", "rs", "b", "a", nil), me("e4", "s", "c", "a", d[2]), me("e5", "r", "d", "a", nil)}},
		{Name: "star", V: []*model.Elem{mv("a", "P", d[2]), mv("b", "P", d[1]), mv("c", "Q", d[1]), mv("d", "Q", d[5])},
			E: []*model.Elem{me("e1", "r", "a", "b", nil), me("e2", "r", "a", "c", d[4]), me("e3", "s", "a", "d", nil), me("e4", "r", "d", "a", d[3]), me("e5", "s", "b", "b", nil)}},
	}
}

var c01VIDs = []string{"a", "b", "c", "d"}
var c01EIDs = []string{"e1", "e2", "e3", "e4", "e5"}

func c01RandomGraph(seed int64, idx int) *tGraph {
	rng := rand.New(rand.NewSource(seed*1000003 + int64(idx)))
	g := &tGraph{Name: fmt.Sprintf("rand%d", idx)}
	nv := rng.Intn(5) // 0..4 of a..d
	vl := []string{"P", "Q", "r"}
	el := []string{"r", "s", "P"}
	for i := 0; i < nv; i++ {
		g.V = append(g.V, mv(c01VIDs[i], vl[rng.Intn(len(vl))], richData[rng.Intn(len(richData))]))
	}
	ne := rng.Intn(6)
	ends := []string{"a", "b", "c", "d", "zz"}
	for i := 0; i < ne && i < len(c01EIDs); i++ {
		g.E = append(g.E, me(c01EIDs[i], el[rng.Intn(len(el))], ends[rng.Intn(len(ends))], ends[rng.Intn(len(ends))], richData[rng.Intn(len(richData))]))
	}
	return g
}

func c01GraphByIndex(seed int64, idx int) *tGraph {
	lib := c01Library()
	if idx < len(lib) {
		return lib[idx]
	}
	return c01RandomGraph(seed, idx)
}

// ---------------------------------------------------------------------------
// step alphabet

func st(s interface{}) *gripql.GraphStatement {
	switch x := s.(type) {
	case *gripql.Query:
		return x.Statements[len(x.Statements)-1]
	}
	panic("bad")
}

func lst(s ...string) *structpb.ListValue { return protoutil.NewListFromStrings(s) }

type stepDef struct {
	Name  string
	Stmt  *gripql.GraphStatement
	Start bool
	Tail  bool
}

func c01Alphabet() []stepDef {
	q := gripql.NewQuery()
	rmap, _ := structpb.NewValue(map[string]interface{}{"g": "_gid", "p": "p", "m": "$m1.p", "d": "n.d.e"})
	rlist, _ := structpb.NewValue([]interface{}{"_label", "n.k", "$m2._gid"})
	rstr, _ := structpb.NewValue("_gid")
	rdata, _ := structpb.NewValue("_data")
	return []stepDef{
		{"V()", st(q.V()), true, false},
		{"V(a)", st(q.V("a")), true, false},
		{"V(b,zz,a)", st(q.V("b", "zz", "a")), true, false},
		{"E()", st(q.E()), true, false},
		{"E(e1)", st(q.E("e1")), true, false},
		{"E(e2,zz)", st(q.E("e2", "zz")), true, false},
		{"out()", st(q.Out()), false, false},
		{"out(r)", st(q.Out("r")), false, false},
		{"out(r,s)", st(q.Out("r", "s")), false, false},
		{"out(nolabel)", st(q.Out("nolabel")), false, false},
		{"in()", st(q.In()), false, false},
		{"in(s)", st(q.In("s")), false, false},
		{"both()", st(q.Both()), false, false},
		{"both(r)", st(q.Both("r")), false, false},
		{"outE()", st(q.OutE()), false, false},
		{"outE(r)", st(q.OutE("r")), false, false},
		{"inE()", st(q.InE()), false, false},
		{"inE(s,P)", st(q.InE("s", "P")), false, false},
		{"bothE()", st(q.BothE()), false, false},
		{"bothE(s)", st(q.BothE("s")), false, false},
		{"has(eq(p,1))", st(q.Has(cond("EQ", "p", 1.0))), false, false},
		{"has(gt(p,0))", st(q.Has(cond("GT", "p", 0.0))), false, false},
		{"has(eq(_label,P))", st(q.Has(cond("EQ", "_label", "P"))), false, false},
		{"has(neq(_gid,a))", st(q.Has(cond("NEQ", "_gid", "a"))), false, false},
		{"has(within(s,[x,y]))", st(q.Has(cond("WITHIN", "s", l("x", "y")))), false, false},
		{"has(or(eq(n.k,2),contains(l,a)))", st(q.Has(orE(cond("EQ", "n.k", 2.0), cond("CONTAINS", "l", "a")))), false, false},
		{"has(eq($m1.p,1))", st(q.Has(cond("EQ", "$m1.p", 1.0))), false, false},
		{"has(eq(_to,a))", st(q.Has(cond("EQ", "_to", "a"))), false, false},
		{"hasLabel(P)", st(q.HasLabel("P")), false, false},
		{"hasLabel(Q,r)", st(q.HasLabel("Q", "r")), false, false},
		{"hasId(a)", st(q.HasID("a")), false, false},
		{"hasId(b,e1,e1)", st(q.HasID("b", "e1", "e1")), false, false},
		{"hasKey(p)", st(q.HasKey("p")), false, false},
		{"hasKey(s,z)", st(q.HasKey("s", "z")), false, false},
		{"as(m1)", st(q.As("m1")), false, false},
		{"as(m2)", st(q.As("m2")), false, false},
		{"select(m1)", st(q.Select("m1")), false, false},
		{"select(m2)", st(q.Select("m2")), false, false},
		{"select(m1,m2)", st(q.Select("m1", "m2")), false, false},
		{"fields()", st(q.Fields()), false, false},
		{"fields(p,s)", st(q.Fields("p", "s")), false, false},
		{"fields(-p)", st(q.Fields("-p")), false, false},
		{"render(_gid)", &gripql.GraphStatement{Statement: &gripql.GraphStatement_Render{Render: rstr}}, false, false},
		{"render(_data)", &gripql.GraphStatement{Statement: &gripql.GraphStatement_Render{Render: rdata}}, false, false},
		{"render(map)", &gripql.GraphStatement{Statement: &gripql.GraphStatement_Render{Render: rmap}}, false, false},
		{"render(list)", &gripql.GraphStatement{Statement: &gripql.GraphStatement_Render{Render: rlist}}, false, false},
		{"path()", &gripql.GraphStatement{Statement: &gripql.GraphStatement_Path{Path: &structpb.ListValue{}}}, false, false},
		{"unwind(l)", &gripql.GraphStatement{Statement: &gripql.GraphStatement_Unwind{Unwind: "l"}}, false, false},
		{"distinct()", st(q.Distinct()), false, true},
		{"distinct(p)", st(q.Distinct("p")), false, true},
		{"distinct($m1._gid,s)", st(q.Distinct("$m1._gid", "s")), false, true},
		{"count()", st(q.Count()), false, true},
		{"limit(1)", st(q.Limit(1)), false, true},
		{"limit(0)", st(q.Limit(0)), false, true},
		{"skip(1)", st(q.Skip(1)), false, true},
		{"range(1,3)", st(q.Range(1, 3)), false, true},
		{"range(0,-1)", st(q.Range(0, -1)), false, true},
		// ill-typed on purpose
		{"as()", st(q.As("")), false, false},
		{"as(_gid)", st(q.As("_gid")), false, false},
		{"as(a b)", st(q.As("a b")), false, false},
		{"hasLabel()", st(q.HasLabel()), false, false},
		{"select()", st(q.Select()), false, false},
		{"select(nope)", st(q.Select("nope")), false, false},
	}
}

type c01Case struct {
	Stmts  []json.RawMessage `json:"stmts"`
	Graphs []int             `json:"graphs"`
	Names  string            `json:"names"`
}

func progNames(alpha []stepDef, idx []int) string {
	var n []string
	for _, i := range idx {
		n = append(n, alpha[i].Name)
	}
	return "." + strings.Join(n, ".")
}

// unspecified reports programs whose meaning the documentation leaves open
// (DESIGN.md C01 "unspecified, therefore not generated").
func c01Unspecified(stmts []*gripql.GraphStatement) bool {
	typ := model.TNone
	afterFields, afterUnwind := false, false
	for i, s := range stmts {
		t, marks, err := model.TypeCheck(stmts[:i])
		if err != nil {
			return false // ill-typed programs are all generated
		}
		typ = t
		// a $mark reference to a mark that is not defined is not described
		// (select of an undefined mark, by contrast, is ill-typed)
		if _, isSel := s.GetStatement().(*gripql.GraphStatement_Select); !isSel {
			txt := s.String()
			for _, m := range []string{"m1", "m2"} {
				if _, ok := marks[m]; !ok && strings.Contains(txt, "$"+m+".") {
					return true
				}
			}
		}
		switch x := s.GetStatement().(type) {
		case *gripql.GraphStatement_Out, *gripql.GraphStatement_In, *gripql.GraphStatement_Both:
			// label lists on a move from an edge are not described
			var ls *structpb.ListValue
			switch y := x.(type) {
			case *gripql.GraphStatement_Out:
				ls = y.Out
			case *gripql.GraphStatement_In:
				ls = y.In
			case *gripql.GraphStatement_Both:
				ls = y.Both
			}
			if typ == model.TEdge && len(ls.GetValues()) > 0 {
				return true
			}
		case *gripql.GraphStatement_Path:
			if afterFields || afterUnwind {
				return true
			}
		case *gripql.GraphStatement_Fields:
			afterFields = true
		case *gripql.GraphStatement_Unwind:
			afterUnwind = true
		case *gripql.GraphStatement_Has:
			// _to/_from on a vertex is not described
			if typ == model.TVertex && strings.Contains(gripql.HasExpressionString(x.Has), "_to") {
				return true
			}
		}
	}
	return false
}

func c01MkCase(alpha []stepDef, idx []int, graphs []int) (fw.Case, bool) {
	var stmts []*gripql.GraphStatement
	for _, i := range idx {
		stmts = append(stmts, alpha[i].Stmt)
	}
	if c01Unspecified(stmts) {
		return fw.Case{}, false
	}
	if _, _, err := model.TypeCheck(stmts); err == nil {
		// order-sensitive steps only in tail position
		if _, err := model.Eval(model.NewGraph(), stmts); err != nil {
			return fw.Case{}, false
		}
	} else {
		graphs = graphs[:1]
	}
	return fw.MkCase("prog", c01Case{Stmts: gq.StmtJSON(stmts), Graphs: graphs, Names: progNames(alpha, idx)}), true
}

const c01LibN = 10

func c01Gen(g *fw.GenCtx) []fw.Case {
	alpha := c01Alphabet()
	var starts, rest []int
	for i, s := range alpha {
		if s.Start {
			starts = append(starts, i)
		} else {
			rest = append(rest, i)
		}
	}
	nRand := g.Pick(20, 500)
	rng := rand.New(rand.NewSource(g.Seed*31 + 1))
	pickGraphs := func(k int) []int {
		// every program runs on the hostile library member it is dealt plus random graphs
		gs := []int{rng.Intn(c01LibN)}
		for len(gs) < k {
			gs = append(gs, c01LibN+rng.Intn(nRand))
		}
		return gs
	}
	var cases []fw.Case
	nDistinct := 0
	add := func(idx []int, k int) {
		for _, i := range idx {
			if strings.HasPrefix(alpha[i].Name, "distinct") {
				// distinct() opens a temporary Badger store per execution (0.3-2 s):
				// one graph per program, and the quick tier keeps every third program
				k = 1
				nDistinct++
				if g.Quick() && nDistinct%3 != 0 {
					return
				}
				break
			}
		}
		if c, ok := c01MkCase(alpha, idx, pickGraphs(k)); ok {
			cases = append(cases, c)
		}
	}
	maxLen := g.Pick(3, 4)
	var rec func(prefix []int)
	rec = func(prefix []int) {
		add(prefix, 3)
		if len(prefix) == maxLen {
			return
		}
		// prune: once a prefix is ill-typed every extension is ill-typed for the same reason
		var stmts []*gripql.GraphStatement
		for _, i := range prefix {
			stmts = append(stmts, alpha[i].Stmt)
		}
		if _, _, err := model.TypeCheck(stmts); err != nil {
			return
		}
		for _, r := range rest {
			rec(append(append([]int{}, prefix...), r))
		}
		if len(prefix) == 1 {
			for _, s := range starts {
				add(append(append([]int{}, prefix...), s), 1) // V/E in the middle
			}
		}
	}
	for _, s := range starts {
		rec([]int{s})
	}
	// non-start first statement
	for _, r := range rest {
		add([]int{r}, 1)
		for _, s := range []int{starts[0], rest[0]} {
			add([]int{r, s}, 1)
		}
	}
	// deep families: k moves with fan-out at every level, marks set at two depths, and a step
	// that observes per-traveler state (path, marks) at the end - on the graphs with fan-out
	byName := map[string]int{}
	for i, s := range alpha {
		byName[s.Name] = i
	}
	ix := func(names ...string) []int {
		var o []int
		for _, n := range names {
			o = append(o, byName[n])
		}
		return o
	}
	moves := ix("out()", "in()", "both()", "outE()", "bothE()")
	observers := ix("path()", "select(m1)", "select(m1,m2)", "render(map)", "count()")
	deepGraphs := []int{0, 7, 8} // indices of deepfan, triangle, star in the library
	for i, g0 := range c01Library() {
		switch g0.Name {
		case "deepfan":
			deepGraphs[0] = i
		case "triangle":
			deepGraphs[1] = i
		case "star":
			deepGraphs[2] = i
		}
	}
	addDeep := func(idx []int) {
		if c, ok := c01MkCase(alpha, idx, []int{deepGraphs[0], deepGraphs[1+len(cases)%2]}); ok {
			cases = append(cases, c)
		}
	}
	var seqs [][]int
	var recMoves func(prefix []int)
	maxMoves := g.Pick(3, 4)
	recMoves = func(prefix []int) {
		if len(prefix) > 0 {
			seqs = append(seqs, append([]int{}, prefix...))
		}
		if len(prefix) == maxMoves {
			return
		}
		for _, m := range moves {
			recMoves(append(prefix, m))
		}
	}
	recMoves(nil)
	m1, m2 := byName["as(m1)"], byName["as(m2)"]
	for _, start := range ix("V()", "V(a)") {
		for _, sq := range seqs {
			// no marks: the path and the count
			addDeep(append(append([]int{start}, sq...), byName["path()"]))
			addDeep(append(append([]int{start}, sq...), byName["count()"]))
			if len(sq) > 3 && g.Quick() {
				continue
			}
			for _, ob := range observers {
				// a mark at the start
				addDeep(append(append([]int{start, m1}, sq...), ob))
				// a mark after the first move and another after the last one
				p := append([]int{start, sq[0], m1}, sq[1:]...)
				addDeep(append(append(p, m2), ob))
			}
		}
	}
	// random type-directed programs of length 5..9
	n := g.Pick(2000, 20000)
	for i := 0; i < n; i++ {
		l := 5 + rng.Intn(5)
		idx := []int{starts[rng.Intn(len(starts))]}
		var stmts = []*gripql.GraphStatement{alpha[idx[0]].Stmt}
		for tries := 0; len(idx) < l && tries < 200; tries++ {
			c := rest[rng.Intn(len(rest))]
			if alpha[c].Tail && len(idx) < l-2 {
				continue
			}
			cand := append(append([]*gripql.GraphStatement{}, stmts...), alpha[c].Stmt)
			if _, _, err := model.TypeCheck(cand); err != nil {
				continue
			}
			if _, err := model.Eval(model.NewGraph(), cand); err != nil {
				continue
			}
			if c01Unspecified(cand) {
				continue
			}
			idx = append(idx, c)
			stmts = cand
		}
		add(idx, 4)
	}
	return cases
}

// ---------------------------------------------------------------------------
// execution

type c01Env struct {
	db     gdbi.GraphDB
	loaded map[int]gdbi.GraphInterface
	models map[int]*model.Graph
}

func c01Setup(w *fw.Worker) *c01Env {
	return w.State("c01", func() interface{} {
		db, err := gq.OpenBadger(w.NewDir("c01db"))
		if err != nil {
			panic(err)
		}
		return &c01Env{db: db, loaded: map[int]gdbi.GraphInterface{}, models: map[int]*model.Graph{}}
	}).(*c01Env)
}

func loadTGraph(db gdbi.GraphDB, name string, tg *tGraph) gdbi.GraphInterface {
	if err := db.AddGraph(name); err != nil {
		panic(err)
	}
	gi, err := db.Graph(name)
	if err != nil {
		panic(err)
	}
	for _, v := range tg.V {
		if err := gi.AddVertex([]*gdbi.Vertex{gq.FromModelElem(v)}); err != nil {
			panic(err)
		}
	}
	for _, e := range tg.E {
		if err := gi.AddEdge([]*gdbi.Edge{gq.FromModelElem(e)}); err != nil {
			panic(err)
		}
	}
	return gi
}

func (env *c01Env) graph(w *fw.Worker, idx int) (gdbi.GraphInterface, *model.Graph) {
	if gi, ok := env.loaded[idx]; ok {
		return gi, env.models[idx]
	}
	tg := c01GraphByIndex(w.Seed, idx)
	gi := loadTGraph(env.db, fmt.Sprintf("g%d", idx), tg)
	env.loaded[idx] = gi
	env.models[idx] = tg.Model()
	return gi, env.models[idx]
}

func stepKey(stmts []*gripql.GraphStatement) string {
	var n []string
	for _, s := range stmts {
		n = append(n, model.StepName(s))
	}
	return strings.Join(n, ">")
}

// checkRows compares engine rows with the model's expectation.
func checkRows(exp *model.Expect, got []string) string {
	if exp.Exact != nil {
		if !gq.SameMultiset(got, exp.Exact) {
			return fmt.Sprintf("rows differ: engine %s, documented semantics %s", gq.Trunc(strings.Join(got, " "), 600), gq.Trunc(strings.Join(exp.Exact, " "), 600))
		}
		return ""
	}
	if len(got) != exp.N {
		return fmt.Sprintf("row count %d, bound arithmetic on the untruncated result gives %d", len(got), exp.N)
	}
	if !gq.SubMultiset(got, exp.Pool) {
		return fmt.Sprintf("rows %s are not a sub-multiset of the untruncated result %s", gq.Trunc(strings.Join(got, " "), 500), gq.Trunc(strings.Join(exp.Pool, " "), 500))
	}
	if exp.Groups != nil {
		seen := map[string]bool{}
		for _, r := range got {
			k := exp.Groups[r]
			if seen[k] {
				return fmt.Sprintf("distinct returned two rows with the same key tuple %q", k)
			}
			seen[k] = true
		}
	}
	return ""
}

func c01Exec(w *fw.Worker, c fw.Case) fw.Result {
	var cc c01Case
	c.Decode(&cc)
	return c01Run(w, c01Setup(w), cc, nil)
}

// c01Run executes one program case against the graphs of env (also used by
// C10 with stores of other drivers).
func c01Run(w *fw.Worker, env *c01Env, cc c01Case, _ gdbi.GraphDB) fw.Result {
	stmts := gq.StmtsFromJSON(cc.Stmts)
	_, _, terr := model.TypeCheck(stmts)
	res := fw.HeldR(false, "")
	res.AddSet("step_kinds", strings.Split(stepKey(stmts), ">")...)
	for _, gidx := range cc.Graphs {
		gi, mg := env.graph(w, gidx)
		lit := &deco.GraphLoad{GraphInterface: gi, Mode: deco.ForceLoad}
		comp := core.NewCompiler(lit)
		t0 := time.Now()
		rows := gq.Run(context.Background(), comp, stmts, w.NewDir("work"))
		res.Count("executions", 1)
		if strings.Contains(cc.Names, "distinct") {
			res.Count("engine_ms_with_distinct", time.Since(t0).Milliseconds())
			res.Count("executions_with_distinct", 1)
		} else {
			res.Count("engine_ms_without_distinct", time.Since(t0).Milliseconds())
		}
		if terr != nil {
			res.Count("ill_typed_programs", 1)
			if rows.CompileErr == "" {
				return fw.ViolatedR("ill-typed-accepted:"+stepKey(stmts), fmt.Sprintf("ill-typed traversal %s (%v) compiled and produced %d rows", cc.Names, terr, len(rows.Rows)),
					map[string]interface{}{"program": cc.Names, "model_type_error": terr.Error(), "rows": gq.CanonRows(rows.Rows)})
			}
			res.Nontrivial = true
			continue
		}
		if rows.CompileErr != "" {
			return fw.ViolatedR("well-typed-rejected:"+stepKey(stmts), fmt.Sprintf("well-typed traversal %s was rejected: %s", cc.Names, rows.CompileErr), cc)
		}
		exp, err := model.Eval(mg, stmts)
		if err != nil {
			return fw.InconclusiveR("model: " + err.Error())
		}
		got := gq.CanonRows(rows.Rows)
		if msg := checkRows(exp, got); msg != "" {
			return fw.ViolatedR("rows:"+stepKey(stmts), fmt.Sprintf("%s on graph %s: %s", cc.Names, c01GraphByIndex(w.Seed, gidx).Name, msg),
				map[string]interface{}{"program": cc.Names, "graph": c01GraphByIndex(w.Seed, gidx), "engine_rows": got, "expected_exact": exp.Exact, "expected_n": exp.N, "pool": exp.Pool})
		}
		res.Count("rows_compared", int64(len(got)))
		if len(got) > 0 || len(exp.Pool) > 0 {
			res.Nontrivial = true
		}
	}
	return res
}

func init() {
	fw.Register(&fw.Property{
		ID:   "C01",
		Rule: "programs over a 63-instance step alphabet: every sequence that starts with V/E up to length 3 (quick) / 4 (thorough), pruned below an ill-typed prefix, plus sequences with a non-start first step, plus 2000 / 20000 random type-directed programs of length 5-9; plus deep families (every sequence of 1-3 / 1-4 moves from out, in, both, outE, bothE after V() and V(a), with marks set at the start or after the first and after the last move, ending in path(), select, render of a mark or count) on the graphs with fan-out at every level; each well-typed program runs on 3-4 graphs drawn from a 10-graph hostile library (labels that are prefixes of one another, empty, single, self loop, parallel edges, dangling endpoints, isolated vertices, label=property name, nested data) and 20 / 500 seeded random graphs, compiled WITHOUT optimizers over a force-load decorator, and its canonical row multiset is compared with the reference interpreter; ill-typed programs must fail to compile. Non-trivial = an ill-typed program that was checked for rejection, or a well-typed one whose (untruncated) result is non-empty; distinct = distinct (program, graph list).",
		Assumptions: []string{
			"where the docs are silent the model follows the literal fully-loaded engine of the pinned tree (DESIGN.md appendix A): V(ids) repeats, moves drop absent endpoints, hasKey counts a null-valued key as present, unwind of a non-list or empty list yields one row with the key set to null, unwind/select append to the path",
			"not generated because unspecified: label lists on moves from an edge, path() after fields()/unwind(), _to/_from on vertices, nested or mixed include/exclude field lists, JSONPath features beyond dotted paths, -0",
			"order-sensitive steps (limit/skip/range/distinct) only in tail position, optionally followed by count(): checked by bound arithmetic + sub-multiset (+ one row per key tuple for distinct)",
		},
		BatchSize: 300,
		Gen:       c01Gen,
		Exec:      c01Exec,
		Sample: func(c fw.Case, r fw.Result) interface{} {
			var cc c01Case
			c.Decode(&cc)
			return map[string]interface{}{"program": cc.Names, "graphs": cc.Graphs, "verdict": r.Status, "rows_compared": r.Counters["rows_compared"]}
		},
	})
}
