package main

import (
	"context"
	"fmt"
	"math"
	"math/rand"
	"sort"
	"strings"
	"time"

	"github.com/bmeg/grip/kvi"
	_ "github.com/bmeg/grip/kvi/badgerdb"
	"github.com/bmeg/grip/kvindex"

	"verifharness/fw"
)

// C09 – secondary-index answers equal a scan of the live documents.

type c09Op struct {
	Op    string `json:"op"` // AddField RemoveField AddDoc RemoveDoc
	Field string `json:"field,omitempty"`
	Doc   string `json:"doc,omitempty"`
	Body  int    `json:"body,omitempty"` // index into c09Docs
}

func (o c09Op) String() string {
	switch o.Op {
	case "AddField", "RemoveField":
		return fmt.Sprintf("%s(%s)", o.Op, o.Field)
	case "AddDoc":
		return fmt.Sprintf("AddDoc(%s,%v)", o.Doc, c09Docs[o.Body])
	}
	return fmt.Sprintf("RemoveDoc(%s)", o.Doc)
}

var c09Fields = []string{"a", "b", "n.x"}

var c09Docs = []M{
	{"a": "s"},
	{"a": "t", "b": 1.0},
	{"a": 1.5, "b": "s", "n": M{"x": -2.5}},
	{"a": -1e10, "n": M{"x": 0.0}},
	{"a": "", "b": 1e-10},
	{"a": 1.0, "b": 1.0, "n": M{"x": 1.0}},
	{"a": -1e-10, "b": -2.5},
	{"a": 0.0, "b": "t", "n": M{"x": 1e10}},
	{"a": "s", "b": "s", "n": M{"x": "s"}},
	{"a": 1.0, "b": "t"},
}

var c09DocIDs = []string{"d1", "d2", "d3"}

func c09Alphabet(avoid map[string]bool) []c09Op {
	var ops []c09Op
	for _, f := range c09Fields {
		ops = append(ops, c09Op{Op: "AddField", Field: f}, c09Op{Op: "RemoveField", Field: f})
	}
	for _, d := range c09DocIDs {
		for b := range c09Docs {
			ops = append(ops, c09Op{Op: "AddDoc", Doc: d, Body: b})
		}
		ops = append(ops, c09Op{Op: "RemoveDoc", Doc: d})
	}
	return ops
}

var c09Bases = [][]c09Op{
	{},
	{{Op: "AddField", Field: "a"}, {Op: "AddField", Field: "b"}, {Op: "AddField", Field: "n.x"}},
	{{Op: "AddField", Field: "a"}, {Op: "AddField", Field: "b"}, {Op: "AddField", Field: "n.x"},
		{Op: "AddDoc", Doc: "d1", Body: 5}, {Op: "AddDoc", Doc: "d2", Body: 2}},
}

type c09Case struct {
	Base int     `json:"base"`
	Ops  []c09Op `json:"ops"`
	Big  int     `json:"big,omitempty"` // large case: this many distinct numeric terms
	// AtEnd: query the index only after the last operation (queries recount lazily
	// invalidated term counts, so querying after every step hides what a later
	// operation does with a count nobody has asked for yet)
	AtEnd bool `json:"at_end,omitempty"`
}

// c09Legal filters sequences that enter the trigger region of a known finding.
func c09Legal(base int, ops []c09Op, avoid map[string]bool) bool {
	if len(avoid) == 0 {
		return true
	}
	docs := map[string]bool{}
	fields := map[string]bool{}
	everDoc := false
	all := append(append([]c09Op{}, c09Bases[base]...), ops...)
	for _, o := range all {
		switch o.Op {
		case "AddField":
			if avoid["c09-field-after-docs"] && len(docs) > 0 && !fields[o.Field] {
				return false
			}
			fields[o.Field] = true
		case "RemoveField":
			if avoid["c09-removefield-with-docs"] && len(docs) > 0 && fields[o.Field] {
				return false
			}
			delete(fields, o.Field)
		case "AddDoc":
			if avoid["c09-replace-doc"] && docs[o.Doc] {
				return false
			}
			if avoid["c09-readd-after-remove"] && everDoc && !docs[o.Doc] {
				_ = everDoc
			}
			docs[o.Doc] = true
			everDoc = true
		case "RemoveDoc":
			delete(docs, o.Doc)
		}
	}
	return true
}

func c09Gen(g *fw.GenCtx) []fw.Case {
	alpha := c09Alphabet(g.Avoid)
	var cases []fw.Case
	add := func(base int, ops []c09Op) {
		if c09Legal(base, ops, g.Avoid) {
			cases = append(cases, fw.MkCase("seq", c09Case{Base: base, Ops: append([]c09Op{}, ops...)}))
			cases = append(cases, fw.MkCase("seq", c09Case{Base: base, Ops: append([]c09Op{}, ops...), AtEnd: true}))
		}
	}
	depth := g.Pick(2, 3)
	var rec func(base int, p []c09Op, d int)
	rec = func(base int, p []c09Op, d int) {
		if d == 0 {
			add(base, p)
			return
		}
		for _, o := range alpha {
			rec(base, append(p, o), d-1)
		}
	}
	for b := range c09Bases {
		rec(b, nil, depth)
	}
	rng := rand.New(rand.NewSource(g.Seed*977 + 11))
	n := g.Pick(500, 20000)
	for i := 0; i < n; i++ {
		ln := 8 + rng.Intn(13)
		var ops []c09Op
		for tries := 0; len(ops) < ln && tries < 400; tries++ {
			o := alpha[rng.Intn(len(alpha))]
			if c09Legal(1, append(ops, o), g.Avoid) {
				ops = append(ops, o)
			}
		}
		add(1, ops)
	}
	if !g.Avoid["c09-range-over-100-terms"] {
		cases = append(cases, fw.MkCase("big", c09Case{Big: 250}))
	}
	cases = append(cases, fw.MkCase("big", c09Case{Big: 90}))
	cases = append(cases, fw.MkCase("big", c09Case{Big: 1500})) // beyond the 1000-slot channels of the listing queries
	return cases
}

// ---------------------------------------------------------------------------
// model: index by scan

type c09Model struct {
	fields map[string]bool
	docs   map[string]M
}

func digDoc(doc M, field string) interface{} {
	var cur interface{} = map[string]interface{}(doc)
	for _, p := range strings.Split(field, ".") {
		m, ok := cur.(map[string]interface{})
		if !ok {
			if mm, ok2 := cur.(M); ok2 {
				m = mm
			} else {
				return nil
			}
		}
		v, ok := m[p]
		if !ok {
			return nil
		}
		cur = v
	}
	return cur
}

func (m *c09Model) terms(field string) (strs map[string][]string, nums map[float64][]string) {
	strs, nums = map[string][]string{}, map[float64][]string{}
	if !m.fields[field] {
		return
	}
	for id, d := range m.docs {
		switch v := digDoc(d, field).(type) {
		case string:
			strs[v] = append(strs[v], id)
		case float64:
			nums[v] = append(nums[v], id)
		}
	}
	return
}

func fnum(f float64) string { return fmt.Sprintf("%g", f) }

// observe renders all query answers of the model for one field.
func (m *c09Model) observe(pfx string, obs map[string]string, queryVals []interface{}, bounds [][2]float64) {
	for _, f := range c09Fields {
		strs, nums := m.terms(f)
		var terms, counts, scounts, numbers []string
		for s, ids := range strs {
			terms = append(terms, "s:"+s)
			if s == "" {
				counts = append(counts, fmt.Sprintf("z:=%d", len(ids)))
			} else {
				counts = append(counts, fmt.Sprintf("s:%s=%d", s, len(ids)))
			}
			scounts = append(scounts, fmt.Sprintf("s:%s=%d", s, len(ids)))
		}
		var nl []float64
		for n, ids := range nums {
			terms = append(terms, "n:"+fnum(n))
			if n == 0 {
				counts = append(counts, fmt.Sprintf("z:=%d", len(ids)))
			} else {
				counts = append(counts, fmt.Sprintf("n:%s=%d", fnum(n), len(ids)))
			}
			for range ids {
				nl = append(nl, n)
			}
		}
		sort.Float64s(nl)
		for _, n := range nl {
			numbers = append(numbers, fnum(n))
		}
		sort.Strings(terms)
		sort.Strings(counts)
		sort.Strings(scounts)
		obs[f+".FieldTerms"] = strings.Join(terms, ",")
		obs[f+".FieldTermCounts"] = strings.Join(counts, ",")
		obs[f+".FieldStringTermCounts"] = strings.Join(scounts, ",")
		obs[f+".FieldNumbers"] = strings.Join(numbers, ",")
		if len(nl) > 0 {
			obs[f+".Min"] = fnum(nl[0])
			obs[f+".Max"] = fnum(nl[len(nl)-1])
			for _, b := range bounds {
				var rc []string
				seen := map[float64]bool{}
				for _, n := range nl {
					if n > b[0] && n < b[1] && !seen[n] { // a term equal to a bound is not judged
						seen[n] = true
						rc = append(rc, fmt.Sprintf("%s=%d", fnum(n), len(nums[n])))
					}
				}
				obs[fmt.Sprintf("%s.Range(%g,%g)", f, b[0], b[1])] = strings.Join(rc, ",")
			}
		}
		for _, qv := range queryVals {
			var ids []string
			switch v := qv.(type) {
			case string:
				ids = append(ids, strs[v]...)
			case float64:
				ids = append(ids, nums[v]...)
			}
			sort.Strings(ids)
			obs[fmt.Sprintf("%s.GetTermMatch(%v)", f, qv)] = strings.Join(ids, ",")
		}
	}
}

var c09QueryVals = []interface{}{"s", "t", "", 1.0, 1.5, -2.5, 0.0, -1e10, 1e10, 1e-10, -1e-10}

// a term that equals a bound is dropped from both sides of the comparison:
// whether a bound is included is not specified
var c09Bounds = [][2]float64{{-1e11, 1e11}, {-1e11, -1}, {-3, -1e-5}, {-1e-5, 1e-5}, {-1e-5, 0.5}, {0.5, 1.2}, {0.5, 2}, {1.2, 1e9}, {1e-11, 1e11}, {-1e11, -1e-11}, {2, 1e11}, {-3, 2},
	{-5, 0}, {0, 5}, {0, 0}, {-2.5, 1.5}, {1, 1.5}, {-1e10, 0}, {0, 1e10}, {-2.5, -1e-10}, {1.5, 1.5}, {5, -5}}

type c09Env struct {
	kv kvi.KVInterface
	n  int
}

func observeIndex(idx *kvindex.KVIndex, pfx string, docPfx string, haveNums map[string]bool) (map[string]string, string) {
	obs := map[string]string{}
	ctx := context.Background()
	strip := func(id string) string { return strings.TrimPrefix(id, docPfx) }
	for _, f := range c09Fields {
		pf := pfx + f
		var terms, counts, scounts, numbers []string
		for t := range idx.FieldTerms(pf) {
			switch v := t.(type) {
			case string:
				terms = append(terms, "s:"+v)
			case float64:
				terms = append(terms, "n:"+fnum(v))
			default:
				terms = append(terms, fmt.Sprintf("?:%v", t))
			}
		}
		for tc := range idx.FieldTermCounts(pf) {
			// KVTermCount cannot tell the string "" from the number 0: both fields are zero
			if tc.String == "" && tc.Number == 0 {
				counts = append(counts, fmt.Sprintf("z:=%d", tc.Count))
			} else if tc.String != "" {
				counts = append(counts, fmt.Sprintf("s:%s=%d", tc.String, tc.Count))
			} else {
				counts = append(counts, fmt.Sprintf("n:%s=%d", fnum(tc.Number), tc.Count))
			}
		}
		for tc := range idx.FieldStringTermCounts(pf) {
			scounts = append(scounts, fmt.Sprintf("s:%s=%d", tc.String, tc.Count))
		}
		for n := range idx.FieldNumbers(pf) {
			numbers = append(numbers, fnum(n))
		}
		sort.Strings(terms)
		sort.Strings(counts)
		sort.Strings(scounts)
		obs[f+".FieldTerms"] = strings.Join(terms, ",")
		obs[f+".FieldTermCounts"] = strings.Join(counts, ",")
		obs[f+".FieldStringTermCounts"] = strings.Join(scounts, ",")
		obs[f+".FieldNumbers"] = strings.Join(numbers, ",") // ascending order is part of the contract
		if haveNums[f] {
			obs[f+".Min"] = fnum(idx.FieldTermNumberMin(pf))
			obs[f+".Max"] = fnum(idx.FieldTermNumberMax(pf))
			for _, b := range c09Bounds {
				var rc []string
				done := make(chan struct{})
				go func() {
					defer close(done)
					for tc := range idx.FieldTermNumberRange(pf, b[0], b[1]) {
						if tc.Number == b[0] || tc.Number == b[1] {
							continue // whether a bound itself is included is not specified
						}
						rc = append(rc, fmt.Sprintf("%s=%d", fnum(tc.Number), tc.Count))
					}
				}()
				select {
				case <-done:
				case <-time.After(20 * time.Second):
					return obs, "FieldTermNumberRange did not return"
				}
				sort.Slice(rc, func(i, j int) bool { return rcNum(rc[i]) < rcNum(rc[j]) })
				obs[fmt.Sprintf("%s.Range(%g,%g)", f, b[0], b[1])] = strings.Join(rc, ",")
			}
		}
		for _, qv := range c09QueryVals {
			var ids []string
			for id := range idx.GetTermMatch(ctx, pf, qv, 0) {
				ids = append(ids, strip(id))
			}
			sort.Strings(ids)
			obs[fmt.Sprintf("%s.GetTermMatch(%v)", f, qv)] = strings.Join(ids, ",")
		}
	}
	return obs, ""
}

func rcNum(s string) float64 {
	var f float64
	fmt.Sscanf(strings.SplitN(s, "=", 2)[0], "%g", &f)
	return f
}

func haveNumTerm(idx *kvindex.KVIndex, field string, n float64) bool {
	for t := range idx.FieldTerms(field) {
		if f, ok := t.(float64); ok && f == n {
			return true
		}
	}
	return false
}

func prefixDoc(doc M, pfx string) map[string]interface{} {
	// fields are registered as "<pfx>a": nest the document under the prefix path
	out := map[string]interface{}{}
	for k, v := range doc {
		out[pfx+k] = v
	}
	return out
}

func diffObs09(got, want map[string]string) []string {
	var d []string
	for k, w := range want {
		if g := got[k]; g != w {
			d = append(d, fmt.Sprintf("%s: index answers [%s], scan of live documents gives [%s]", k, g, w))
		}
	}
	for k, g := range got {
		if _, ok := want[k]; !ok && g != "" && !strings.Contains(k, ".Min") && !strings.Contains(k, ".Max") && !strings.Contains(k, ".Range") {
			d = append(d, fmt.Sprintf("%s: unexpected [%s]", k, g))
		}
	}
	sort.Strings(d)
	return d
}

func c09Exec(w *fw.Worker, c fw.Case) fw.Result {
	var cc c09Case
	c.Decode(&cc)
	env := w.State("c09", func() interface{} {
		kv, err := kvi.NewKVInterface("badger", w.NewDir("c09db"), nil)
		if err != nil {
			panic(err)
		}
		return &c09Env{kv: kv}
	}).(*c09Env)
	env.n++
	pfx := fmt.Sprintf("q%dx", env.n) // no dots: a prefix of the first path element
	docPfx := fmt.Sprintf("q%d:", env.n)
	idx := kvindex.NewIndex(env.kv)
	m := &c09Model{fields: map[string]bool{}, docs: map[string]M{}}
	res := fw.HeldR(false, "")
	if cc.Big > 0 {
		return c09Big(idx, pfx, docPfx, cc.Big)
	}
	all := append(append([]c09Op{}, c09Bases[cc.Base]...), cc.Ops...)
	defer func() {
		// a KVIndex reloads the registered fields of its store: leave none behind
		for _, f := range c09Fields {
			idx.RemoveField(pfx + f)
		}
	}()
	for i, o := range all {
		var err error
		switch o.Op {
		case "AddField":
			err = idx.AddField(pfx + o.Field)
			m.fields[o.Field] = true
		case "RemoveField":
			err = idx.RemoveField(pfx + o.Field)
			delete(m.fields, o.Field)
		case "AddDoc":
			err = idx.AddDoc(docPfx+o.Doc, prefixDoc(c09Docs[o.Body], pfx))
			m.docs[o.Doc] = c09Docs[o.Body]
		case "RemoveDoc":
			err = idx.RemoveDoc(docPfx + o.Doc)
			delete(m.docs, o.Doc)
		}
		res.Count("ops", 1)
		hist := map[string]interface{}{"base": cc.Base, "ops": cc.Ops, "failing_step": i - len(c09Bases[cc.Base]), "failing_op": o.String()}
		if err != nil {
			return fw.ViolatedR(o.Op+":error", fmt.Sprintf("%s returned error %v", o, err), hist)
		}
		if cc.AtEnd && i != len(all)-1 {
			continue
		}
		want := map[string]string{}
		m.observe(pfx, want, c09QueryVals, c09Bounds)
		haveNums := map[string]bool{}
		for _, f := range c09Fields {
			_, nums := m.terms(f)
			haveNums[f] = len(nums) > 0
		}
		got, hang := observeIndex(idx, pfx, docPfx, haveNums)
		if hang != "" {
			r := fw.ViolatedR(o.Op+":hang", hang, hist)
			r.ExitAfter = true
			return r
		}
		res.Count("queries", int64(len(got)))
		if d := diffObs09(got, want); len(d) > 0 {
			kinds := map[string]bool{}
			for _, l := range d {
				q := strings.SplitN(strings.SplitN(l, ":", 2)[0], ".", 3)
				k := q[len(q)-1]
				if i := strings.Index(k, "("); i > 0 {
					k = k[:i]
				}
				kinds[k] = true
			}
			var ks []string
			for k := range kinds {
				ks = append(ks, k)
			}
			sort.Strings(ks)
			if len(d) > 8 {
				d = d[:8]
			}
			hist["differences"] = d
			key := c09Classify(all[:i+1])
			if key != "field-after-docs" {
				key += ":" + strings.Join(ks, "+")
			}
			return fw.ViolatedR(key, fmt.Sprintf("after %s: %s", o, d[0]), hist)
		}
		if len(m.docs) > 0 && len(m.fields) > 0 {
			res.Nontrivial = true
		}
	}
	return res
}

// c09Classify names the structural feature of the history that precedes a
// disagreement (used for finding keys).
func c09Classify(ops []c09Op) string {
	docs := map[string]bool{}
	fields := map[string]bool{}
	feature := ops[len(ops)-1].Op
	for _, o := range ops {
		switch o.Op {
		case "AddField":
			if len(docs) > 0 && !fields[o.Field] {
				feature = "field-after-docs"
			}
			fields[o.Field] = true
		case "RemoveField":
			delete(fields, o.Field)
		case "AddDoc":
			if docs[o.Doc] {
				feature = "replace-doc"
			}
			docs[o.Doc] = true
		case "RemoveDoc":
			delete(docs, o.Doc)
		}
	}
	return feature
}

func c09Big(idx *kvindex.KVIndex, pfx, docPfx string, n int) fw.Result {
	idx.AddField(pfx + "a")
	for i := 0; i < n; i++ {
		v := float64(i) - float64(n)/2 + 0.25
		if err := idx.AddDoc(fmt.Sprintf("%sd%d", docPfx, i), map[string]interface{}{pfx + "a": v}); err != nil {
			return fw.ViolatedR("big:error", err.Error(), nil)
		}
	}
	got := 0
	done := make(chan struct{})
	go func() {
		defer close(done)
		for range idx.FieldTermNumberRange(pfx+"a", -1e9, 1e9) {
			got++
		}
	}()
	select {
	case <-done:
	case <-time.After(30 * time.Second):
		r := fw.ViolatedR("big:range-hang", fmt.Sprintf("FieldTermNumberRange over %d distinct numeric terms never returns (it fills a 100-slot channel before handing it to the caller)", n), map[string]int{"terms": n})
		r.ExitAfter = true
		return r
	}
	if got != n {
		return fw.ViolatedR("big:range-count", fmt.Sprintf("FieldTermNumberRange returned %d terms of %d", got, n), nil)
	}
	// the listing queries stream through 1000-slot channels
	nTerms, nNumbers, nCounts := 0, 0, 0
	for range idx.FieldTerms(pfx + "a") {
		nTerms++
	}
	for range idx.FieldNumbers(pfx + "a") {
		nNumbers++
	}
	for tc := range idx.FieldTermCounts(pfx + "a") {
		if tc.Count == 1 {
			nCounts++
		}
	}
	if nTerms != n || nNumbers != n || nCounts != n {
		return fw.ViolatedR("big:listing-count", fmt.Sprintf("over %d distinct numeric terms FieldTerms lists %d, FieldNumbers %d, FieldTermCounts %d with count 1", n, nTerms, nNumbers, nCounts), nil)
	}
	mn, mx := idx.FieldTermNumberMin(pfx+"a"), idx.FieldTermNumberMax(pfx+"a")
	if mn != 0.25-float64(n)/2 || mx != float64(n-1)-float64(n)/2+0.25 {
		return fw.ViolatedR("big:minmax", fmt.Sprintf("min/max %g %g", mn, mx), nil)
	}
	r := fw.HeldR(true, fmt.Sprintf("big%d", n))
	r.Count("queries", 3)
	return r
}

var _ = math.Inf

func init() {
	fw.Register(&fw.Property{
		ID:   "C09",
		Rule: "sequences over AddField/RemoveField (3 fields incl. a nested path), AddDoc (3 ids x 10 bodies, re-adding an id = replacement) and RemoveDoc, from three base states: exhaustive to depth 2 (quick) / 3 (thorough) plus 500 / 20000 random sequences of length 8-20; after EVERY step every public query (GetTermMatch for 11 values, FieldTerms, FieldTermCounts, FieldStringTermCounts, FieldNumbers, min, max, 12 numeric ranges) on every field is compared with a brute-force scan of the model's live documents; plus large cases with 90 / 250 / 1500 distinct numeric terms (range, listings, min, max). Terms cover strings incl. \"\" and numbers -1e10..1e10 incl. negatives, zero, fractions. Non-trivial = at least one live document under a registered field.",
		Assumptions: []string{
			"every sequence runs twice: queried after every operation, and queried only after the last one (queries recount invalidated term counts and would otherwise hide what later operations do with them)",
			"range bounds include 0 and term values; a term equal to a bound is not judged (boundary inclusivity is unspecified)",
			"min/max/range are compared only when at least one numeric live term exists",
			"-0 is not generated",
			"one Badger store per worker, a fresh KVIndex object and unique field/document prefixes per sequence",
		},
		BatchSize:   200,
		CaseTimeout: 120 * time.Second,
		Gen:         c09Gen,
		Exec:        c09Exec,
	})
}
