package main

import (
	"context"
	"fmt"
	"sort"
	"strings"
	"time"

	esql "github.com/bmeg/grip/existing-sql"
	"github.com/bmeg/grip/gdbi"
	"github.com/bmeg/grip/psql"
	"github.com/jmoiron/sqlx"

	"verifharness/deco"
	"verifharness/fw"
	"verifharness/gq"
	"verifharness/model"
)

// C20 – SQL backends treat client-supplied identifiers as data.

type c20Case struct {
	Entry string `json:"entry"`
	S     string `json:"s"` // hex of the client string
}

type c20Entry struct {
	Name   string
	Benign string
	// Wrap turns the raw hostile string into the client string for this entry
	// (e.g. "users:"+h for existing-sql ids); nil = identity.
	Wrap func(h string) string
	Call func(env *c20Env, s string)
}

type c20Env struct {
	rec  *deco.RecSQL
	pg   gdbi.GraphInterface
	pgdb gdbi.GraphDB
	es   gdbi.GraphInterface
	esdb gdbi.GraphDB
}

func lookups(ids ...string) chan gdbi.ElementLookup {
	ch := make(chan gdbi.ElementLookup, len(ids)+1)
	for _, id := range ids {
		ch <- gdbi.ElementLookup{ID: id, Ref: &gdbi.BaseTraveler{}}
	}
	close(ch)
	return ch
}

func drain(ch chan gdbi.ElementLookup) {
	for range ch {
	}
}

func c20Entries() []c20Entry {
	ctx := context.Background()
	var out []c20Entry
	type gsel func(env *c20Env) gdbi.GraphInterface
	pg := func(env *c20Env) gdbi.GraphInterface { return env.pg }
	es := func(env *c20Env) gdbi.GraphInterface { return env.es }
	for _, d := range []struct {
		name   string
		g      gsel
		benign string
		wrap   func(string) string
		label  string
	}{{"psql", pg, "benignid", nil, "benignlabel"}, {"esql", es, "users:42", func(h string) string { return "users:" + h }, "user"}} {
		d := d
		add := func(fn, arg, benign string, wrap func(string) string, call func(g gdbi.GraphInterface, s string)) {
			out = append(out, c20Entry{Name: d.name + "." + fn + ":" + arg, Benign: benign, Wrap: wrap, Call: func(env *c20Env, s string) { call(d.g(env), s) }})
		}
		add("GetVertex", "id", d.benign, d.wrap, func(g gdbi.GraphInterface, s string) { g.GetVertex(s, true); g.GetVertex(s, false) })
		add("GetEdge", "id", strings.Replace(d.benign, "users", "purchases", 1), func(h string) string {
			if d.wrap == nil {
				return h
			}
			return "purchases:" + h
		}, func(g gdbi.GraphInterface, s string) { g.GetEdge(s, true); g.GetEdge(s, false) })
		add("DelVertex", "id", d.benign, d.wrap, func(g gdbi.GraphInterface, s string) { g.DelVertex(s) })
		add("DelEdge", "id", d.benign, d.wrap, func(g gdbi.GraphInterface, s string) { g.DelEdge(s) })
		add("VertexLabelScan", "label", d.label, nil, func(g gdbi.GraphInterface, s string) {
			for range g.VertexLabelScan(ctx, s) {
			}
		})
		add("GetVertexChannel", "id", d.benign, d.wrap, func(g gdbi.GraphInterface, s string) { drain(g.GetVertexChannel(ctx, lookups(s, d.benign), true)) })
		for _, m := range []struct {
			fn   string
			call func(g gdbi.GraphInterface, ids chan gdbi.ElementLookup, labels []string) chan gdbi.ElementLookup
		}{
			{"GetOutChannel", func(g gdbi.GraphInterface, ids chan gdbi.ElementLookup, l []string) chan gdbi.ElementLookup {
				return g.GetOutChannel(ctx, ids, true, false, l)
			}},
			{"GetInChannel", func(g gdbi.GraphInterface, ids chan gdbi.ElementLookup, l []string) chan gdbi.ElementLookup {
				return g.GetInChannel(ctx, ids, true, false, l)
			}},
			{"GetOutEdgeChannel", func(g gdbi.GraphInterface, ids chan gdbi.ElementLookup, l []string) chan gdbi.ElementLookup {
				return g.GetOutEdgeChannel(ctx, ids, true, false, l)
			}},
			{"GetInEdgeChannel", func(g gdbi.GraphInterface, ids chan gdbi.ElementLookup, l []string) chan gdbi.ElementLookup {
				return g.GetInEdgeChannel(ctx, ids, true, false, l)
			}},
		} {
			m := m
			add(m.fn, "id", d.benign, d.wrap, func(g gdbi.GraphInterface, s string) { drain(m.call(g, lookups(s), nil)) })
			add(m.fn, "label", "benignlabel", nil, func(g gdbi.GraphInterface, s string) { drain(m.call(g, lookups(d.benign), []string{s, "bought"})) })
		}
	}
	padd := func(fn, arg, benign string, call func(env *c20Env, s string)) {
		out = append(out, c20Entry{Name: "psql." + fn + ":" + arg, Benign: benign, Call: call})
	}
	padd("AddVertex", "id", "benignid", func(env *c20Env, s string) {
		env.pg.AddVertex([]*gdbi.Vertex{{ID: s, Label: "L", Data: map[string]interface{}{"k": 1.0}}})
	})
	padd("AddVertex", "label", "benignlabel", func(env *c20Env, s string) {
		env.pg.AddVertex([]*gdbi.Vertex{{ID: "v", Label: s, Data: map[string]interface{}{"k": 1.0}}})
	})
	padd("AddVertex", "value", "benignvalue", func(env *c20Env, s string) {
		env.pg.AddVertex([]*gdbi.Vertex{{ID: "v", Label: "L", Data: map[string]interface{}{"k": s}}})
	})
	padd("AddEdge", "id", "benignid", func(env *c20Env, s string) {
		env.pg.AddEdge([]*gdbi.Edge{{ID: s, Label: "L", From: "a", To: "b"}})
	})
	padd("AddEdge", "from", "benignid", func(env *c20Env, s string) {
		env.pg.AddEdge([]*gdbi.Edge{{ID: "e", Label: "L", From: s, To: "b"}})
	})
	padd("AddEdge", "label", "benignlabel", func(env *c20Env, s string) {
		env.pg.AddEdge([]*gdbi.Edge{{ID: "e", Label: s, From: "a", To: "b"}})
	})
	padd("AddGraph", "name", "benigngraph", func(env *c20Env, s string) { env.pgdb.AddGraph(s) })
	padd("DeleteGraph", "name", "benigngraph", func(env *c20Env, s string) { env.pgdb.DeleteGraph(s) })
	padd("Graph", "name", "benigngraph", func(env *c20Env, s string) { env.pgdb.Graph(s) })
	out = append(out, c20Entry{Name: "esql.Graph:name", Benign: "g", Call: func(env *c20Env, s string) { env.esdb.Graph(s) }})
	// existing-sql ids are table:key - the hostile string as the table part (checked against the
	// configured tables before any statement is built)
	tbl := func(h string) string { return h + ":7" }
	eadd := func(fn, benign string, call func(g gdbi.GraphInterface, s string)) {
		out = append(out, c20Entry{Name: "esql." + fn + ":table", Benign: benign + ":7", Wrap: tbl, Call: func(env *c20Env, s string) { call(env.es, s) }})
	}
	eadd("GetVertex", "users", func(g gdbi.GraphInterface, s string) { g.GetVertex(s, true); g.GetVertex(s, false) })
	eadd("GetEdge", "purchases", func(g gdbi.GraphInterface, s string) { g.GetEdge(s, true); g.GetEdge(s, false) })
	eadd("GetVertexChannel", "users", func(g gdbi.GraphInterface, s string) { drain(g.GetVertexChannel(ctx, lookups(s), true)) })
	eadd("GetOutChannel", "users", func(g gdbi.GraphInterface, s string) { drain(g.GetOutChannel(ctx, lookups(s), true, false, nil)) })
	eadd("GetInChannel", "users", func(g gdbi.GraphInterface, s string) { drain(g.GetInChannel(ctx, lookups(s), true, false, nil)) })
	eadd("GetOutEdgeChannel", "users", func(g gdbi.GraphInterface, s string) { drain(g.GetOutEdgeChannel(ctx, lookups(s), true, false, nil)) })
	eadd("GetInEdgeChannel", "users", func(g gdbi.GraphInterface, s string) { drain(g.GetInEdgeChannel(ctx, lookups(s), true, false, nil)) })
	return out
}

func c20Hostile() []string {
	base := []string{"'", "''", "\\", "\\'", "\"", ";", "--", "/*", "*/", "$1", "$$", "%s", "\x00", "\n", "’", "＇", "x' OR '1'='1", "x'; DROP TABLE g_vertices; --", "x\\'; --", "1 OR 1=1", "1; DROP TABLE users", "a/*b*/c", "$q$x$q$", "E'\\x27'", "plain2", "43", "a-b", "a--b", "x-1_y", "a_b", "A.b", "a`b", "x`-`y", "a[b", "a^b", "Z_a"}
	out := append([]string{}, base...)
	for _, b := range base[:16] {
		out = append(out, "pre"+b+"post")
	}
	return out
}

func c20Gen(g *fw.GenCtx) []fw.Case {
	var cases []fw.Case
	for _, e := range c20Entries() {
		for _, h := range c20Hostile() {
			cases = append(cases, fw.MkCase("sql", c20Case{Entry: e.Name, S: hx(h)}))
		}
	}
	return cases
}

func c20NewEnv() *c20Env {
	rec, sdb := deco.NewRecSQL()
	db := sqlx.NewDb(sdb, "postgres")
	schema := &esql.Schema{Graph: "g",
		Vertices: []*esql.Vertex{{Table: "users", GidField: "id", Label: "user"}, {Table: "items", GidField: "id", Label: "item"}},
		Edges: []*esql.Edge{
			{Table: "purchases", GidField: "id", Label: "bought", From: &esql.ForeignKey{SourceField: "user_id", DestTable: "users", DestField: "id"}, To: &esql.ForeignKey{SourceField: "item_id", DestTable: "items", DestField: "id"}},
			{Table: "", Label: "owner", From: &esql.ForeignKey{SourceField: "owner_id", DestTable: "items", DestField: "id"}, To: &esql.ForeignKey{SourceField: "id", DestTable: "users", DestField: "id"}},
		}}
	env := &c20Env{rec: rec}
	env.pgdb = psql.VerifNewGraphDB(db)
	env.pg = psql.VerifNewGraph(db, "g", "g_vertices", "g_edges")
	env.esdb = esql.VerifNewGraphDB(db, []*esql.Schema{schema})
	env.es, _ = env.esdb.Graph("g")
	return env
}

type stmtView struct {
	Query    string        `json:"query"`
	Args     []interface{} `json:"args,omitempty"`
	Skeleton string        `json:"skeleton"`
}

func c20Exec(w *fw.Worker, c fw.Case) fw.Result {
	var cc c20Case
	c.Decode(&cc)
	var entry *c20Entry
	for _, e := range c20Entries() {
		if e.Name == cc.Entry {
			e := e
			entry = &e
		}
	}
	if entry == nil {
		return fw.InconclusiveR("unknown entry " + cc.Entry)
	}
	env := w.State("c20", func() interface{} { return c20NewEnv() }).(*c20Env)
	hostile := string(unhx(cc.S))
	client := hostile
	if entry.Wrap != nil {
		client = entry.Wrap(hostile)
	}
	var benign, got []deco.RecStmt
	// the channel entries send their ids through a batcher with a timeout: how many statements a
	// call is split into depends on timing, so a differing statement count is re-measured
	for attempt := 0; attempt < 4; attempt++ {
		env.rec.Take()
		entry.Call(env, entry.Benign)
		time.Sleep(time.Millisecond)
		benign = env.rec.Take()
		entry.Call(env, client)
		time.Sleep(time.Millisecond)
		got = env.rec.Take()
		if len(got) == len(benign) || len(got) == 0 {
			break
		}
	}
	res := fw.HeldR(len(benign) > 0, "")
	res.Count("statements", int64(len(benign)+len(got)))
	res.AddSet("entries", cc.Entry)
	view := func(l []deco.RecStmt) []stmtView {
		var out []stmtView
		for _, s := range l {
			sk, _ := model.SQLSkeleton(s.Query)
			out = append(out, stmtView{s.Query, s.Args, sk})
		}
		return out
	}
	detail := map[string]interface{}{"entry": cc.Entry, "client_string": client, "benign_string": entry.Benign, "benign_statements": view(benign), "statements": view(got)}
	key := strings.Replace(cc.Entry, ".", ":", 1)
	// psql call sites are keyed by whether the client string needs a quote character to show the
	// defect: the recorded findings are breakouts of a quoted literal; a defect that shows
	// without any quote (an identifier built from the string, say) is a different one
	if strings.HasPrefix(key, "psql:") {
		switch {
		case strings.ContainsAny(client, "'’＇"):
			key += ":quote"
		case client != "" && client[0] >= '0' && client[0] <= '9':
			key += ":noquote:leading-digit"
		case strings.ContainsAny(client, " \n\t\x00"):
			key += ":noquote:whitespace"
		default:
			key += ":noquote"
		}
	}
	if len(got) == 0 {
		// the call was refused before any statement was sent: that is safe
		res.AddSet("outcomes", "refused-before-sql")
		return res
	}
	if len(got) != len(benign) {
		return fw.ViolatedR(key, fmt.Sprintf("%s with client string %q sends %d statements, with a benign string %d", cc.Entry, client, len(got), len(benign)), detail)
	}
	// the benign client string, and for ids of the form table:key also its parts
	benignParts := []string{entry.Benign}
	clientParts := []string{client}
	if entry.Wrap != nil {
		bp := strings.SplitN(entry.Benign, ":", 2)
		cp := strings.SplitN(client, ":", 2)
		if len(bp) == 2 && len(cp) == 2 {
			benignParts = append(benignParts, bp[1])
			clientParts = append(clientParts, cp[1])
		}
	}
	for i := range got {
		bs, bl := model.SQLSkeleton(benign[i].Query)
		gs, gl := model.SQLSkeleton(got[i].Query)
		if strings.HasSuffix(cc.Entry, "name") {
			// a graph name legitimately becomes part of table identifiers after '-' is replaced by '_'
			san := func(x string) string { return strings.Replace(x, "-", "_", -1) }
			if san(client) != "" {
				bs = strings.Replace(bs, san(entry.Benign), "§", -1)
				gs = strings.Replace(gs, san(client), "§", -1)
				gs = strings.Replace(gs, strings.ToLower(san(client)), "§", -1) // the skeleton folds identifiers to lower case
			}
		}
		if bs != gs {
			return fw.ViolatedR(key, fmt.Sprintf("%s: the client string %q changes the token structure of the statement: %s  (benign: %s)", cc.Entry, client, gq.Trunc(got[i].Query, 300), gq.Trunc(benign[i].Query, 200)), detail)
		}
		for j := range bl {
			want := bl[j]
			for p := range benignParts {
				if bl[j] == benignParts[p] {
					want = clientParts[p]
				}
			}
			// a literal is the client string where the benign run had the benign string, or unchanged
			// (a second id of the same call); literals built from the string (sanitised table names) are
			// covered by the skeleton check
			derived := want == bl[j] && strings.Contains(bl[j], entry.Benign)
			sanitised := strings.HasSuffix(cc.Entry, "name") && j < len(gl) && gl[j] == strings.Replace(client, "-", "_", -1) // the recorded sanitised graph name
			if j >= len(gl) || (gl[j] != want && gl[j] != bl[j] && !derived && !sanitised) {
				return fw.ViolatedR(key, fmt.Sprintf("%s: a literal does not decode to the client string %q: %s", cc.Entry, client, gq.Trunc(got[i].Query, 300)), detail)
			}
		}
		for j := range benign[i].Args {
			want := benign[i].Args[j]
			for p := range benignParts {
				if s, ok := want.(string); ok && s == benignParts[p] {
					want = clientParts[p]
				}
			}
			if j >= len(got[i].Args) || fmt.Sprint(got[i].Args[j]) != fmt.Sprint(want) {
				if bs, ok := benign[i].Args[j].([]byte); ok && strings.Contains(string(bs), entry.Benign) {
					continue // JSON-encoded property data carrying the string
				}
				return fw.ViolatedR(key, fmt.Sprintf("%s: bound argument %d is %v, expected the client string", cc.Entry, j, got[i].Args[j]), detail)
			}
		}
	}
	res.AddSet("outcomes", "same-structure")
	return res
}

func init() {
	fw.Register(&fw.Property{
		ID:   "C20",
		Rule: "every psql and existing-sql entry point that takes an id, label or name (GetVertex, GetEdge, DelVertex, DelEdge, VertexLabelScan, GetVertexChannel, the four adjacency channels with ids and with edge-label lists, AddVertex/AddEdge id, label, endpoint and property value, AddGraph, DeleteGraph, Graph; existing-sql ids of the form table:key) x 52 client strings (dashes and dots inside names, quotes, doubled quotes, backslashes, comment markers, statement separators, $1, $$, %s, NUL, newline, unicode quotes, classic injection payloads, alone and embedded). The backends run over a recording database/sql driver (injected through verif-tagged constructors); each call is made once with a benign string and once with the hostile one, and the statements are compared by a PostgreSQL tokenizer: same number of statements, same token skeleton, and every literal / bound argument that carried the benign string decodes to exactly the client string. Non-trivial = the benign call sends at least one statement.",
		Assumptions: []string{
			"PostgreSQL lexical rules with standard_conforming_strings on (a backslash is an ordinary character inside '...')",
			"a call that is refused before any statement is sent is safe",
		},
		Exhaustive: true,
		BatchSize:  200,
		Gen:        c20Gen,
		Exec:       c20Exec,
		Sample: func(c fw.Case, r fw.Result) interface{} {
			var cc c20Case
			c.Decode(&cc)
			return map[string]interface{}{"entry": cc.Entry, "client_string": string(unhx(cc.S)), "outcome": r.Sets["outcomes"], "statements": r.Counters["statements"]}
		},
	})
}

var _ = sort.Strings
