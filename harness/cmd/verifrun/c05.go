package main

import (
	"context"
	"encoding/base64"
	"encoding/json"
	"fmt"
	"io"
	"net"
	"net/http"
	"net/url"
	"os"
	"path/filepath"
	"sort"
	"strings"
	"sync"
	"time"

	"github.com/bmeg/grip/accounts"
	"github.com/bmeg/grip/gdbi"
	"github.com/bmeg/grip/gripql"
	"google.golang.org/genproto/googleapis/api/annotations"
	"google.golang.org/grpc"
	"google.golang.org/grpc/codes"
	"google.golang.org/grpc/metadata"
	"google.golang.org/protobuf/encoding/protojson"
	"google.golang.org/protobuf/proto"
	"google.golang.org/protobuf/reflect/protoreflect"

	"verifharness/fw"
	"verifharness/gq"
)

// C05 – every exposed RPC is mediated by authentication and per-graph authorization.

type c05Rule struct{ Sub, Obj, Act string }

var c05Policies = [][]c05Rule{
	{},
	{{"bob", "g1", "read"}},
	{{"bob", "g1", "query"}},
	{{"bob", "g1", "write"}},
	{{"bob", "g1", "exec"}},
	{{"bob", "g1", "admin"}},
	{{"bob", "*", "read"}},
	{{"bob", "g1", "*"}},
	{{"bob", "*", "admin"}},
	{{"bob", "g2", "write"}, {"bob", "g1", "read"}},
	{{"bob", "*", "*"}},
	{{"bob", "g1", "read"}, {"bob", "g1", "query"}, {"bob", "g1", "write"}, {"bob", "g1", "exec"}},
}

// every policy also grants alice everything
func c05Allowed(pol int, user, graph, op string) bool {
	if user == "root" {
		return true
	}
	rules := append([]c05Rule{{"alice", "*", "*"}}, c05Policies[pol]...)
	for _, r := range rules {
		if r.Sub == user && (r.Obj == graph || r.Obj == "*") && (r.Act == op || r.Act == "*") {
			return true
		}
	}
	return false
}

type c05User struct{ Name, Login, Password string }

var c05Users = []c05User{
	{"anonymous", "", ""},
	{"bad-password", "bob", "wrong"},
	// dave is granted everything by the policy file but has no account: the policy never authenticates
	{"no-account", "dave", "pw-dave"},
	{"no-account-empty-password", "dave", ""},
	{"known-user-empty-password", "bob", ""},
	{"alice", "alice", "pw-alice"},
	{"bob", "bob", "pw-bob"},
	{"carol", "carol", "pw-carol"},
	{"root", "root", "pw-root"},
}

func (u c05User) valid() bool {
	switch u.Name {
	case "anonymous", "bad-password", "no-account", "no-account-empty-password", "known-user-empty-password":
		return false
	}
	return true
}

// opClass is the operation class of a method by the documented naming rule;
// it is deliberately NOT read from accounts.MethodMap.
func c05OpClass(m gq.Method) string {
	switch m.Service {
	case "Query":
		if m.Name == "Traversal" {
			return "query"
		}
		return "read"
	case "Job":
		switch m.Name {
		case "Submit", "ResumeJob":
			return "exec"
		case "DeleteJob":
			return "write"
		}
		return "read"
	case "Edit":
		return "write"
	}
	return "admin"
}

// c05Request builds a request for the method that names the graph.
func c05Request(m gq.Method, graph string) proto.Message {
	vals := map[string]interface{}{
		"graph": graph, "id": "x1", "label": "L", "field": "f", "name": "plug", "srcId": "job1", "driver": "d",
		"query":  []interface{}{map[string]interface{}{"v": []interface{}{}}},
		"vertex": map[string]interface{}{"gid": "c05v", "label": "L"},
	}
	req := map[string]interface{}{}
	fs := m.Input.Fields()
	for i := 0; i < fs.Len(); i++ {
		f := fs.Get(i)
		if v, ok := vals[f.JSONName()]; ok {
			req[f.JSONName()] = v
		}
	}
	if m.Name == "AddEdge" {
		delete(req, "vertex")
		req["edge"] = map[string]interface{}{"gid": "c05e", "label": "r", "from": "a", "to": "b"}
	}
	b, _ := json.Marshal(req)
	msg := gq.NewMessage(m.Input)
	if err := protojson.Unmarshal(b, msg); err != nil {
		panic(fmt.Sprintf("%s: %v (%s)", m.Full, err, b))
	}
	return msg
}

func c05GraphOf(msg proto.Message) string {
	fd := msg.ProtoReflect().Descriptor().Fields().ByName("graph")
	if fd == nil {
		return "*"
	}
	return msg.ProtoReflect().Get(fd).String()
}

type c05Case struct {
	Layer   string   `json:"layer"` // spy | bulk | noaccounts | live
	Policy  int      `json:"policy"`
	User    int      `json:"user"`
	Graph   string   `json:"graph,omitempty"`
	Method  string   `json:"method,omitempty"`
	HTTP    bool     `json:"http,omitempty"`
	Targets []string `json:"targets,omitempty"` // bulk: graph of each element
}

func c05Gen(g *fw.GenCtx) []fw.Case {
	var cases []fw.Case
	methods := gq.Methods()
	var pols []int
	for i := range c05Policies {
		pols = append(pols, i)
	}
	for _, p := range pols {
		for u := range c05Users {
			for _, gr := range []string{"g1", "g2"} {
				for _, m := range methods {
					if m.ClientStreaming {
						continue
					}
					cases = append(cases, fw.MkCase("spy", c05Case{Layer: "spy", Policy: p, User: u, Graph: gr, Method: m.Service + "/" + m.Name}))
				}
			}
			// BulkAdd streams: every graph pattern of length <= 3 over g1, g2, g3
			var rec func(t []string)
			rec = func(t []string) {
				if len(t) > 0 {
					cases = append(cases, fw.MkCase("bulk", c05Case{Layer: "bulk", Policy: p, User: u, Targets: append([]string{}, t...)}))
				}
				if len(t) == 3 {
					return
				}
				for _, x := range []string{"g1", "g2", "g3"} {
					rec(append(t, x))
				}
			}
			if u >= 2 || p == pols[0] {
				rec(nil)
			}
		}
	}
	for _, m := range methods {
		cases = append(cases, fw.MkCase("noaccounts", c05Case{Layer: "noaccounts", Method: m.Service + "/" + m.Name, Graph: "g1"}))
	}
	// live server: gRPC and the HTTP gateway
	livePols := []int{1, 3, 7, 9}
	if !g.Quick() {
		livePols = []int{1, 2, 3, 4, 7, 9, 11}
	}
	for _, p := range livePols {
		for u := range c05Users {
			for _, gr := range []string{"g1", "g2"} {
				for _, m := range methods {
					if m.ClientStreaming {
						continue
					}
					for _, h := range []bool{false, true} {
						cases = append(cases, fw.MkCase("live", c05Case{Layer: "live", Policy: p, User: u, Graph: gr, Method: m.Service + "/" + m.Name, HTTP: h}))
					}
				}
			}
		}
	}
	return cases
}

// ---------------------------------------------------------------------------

const c05Model = `[request_definition]
r = sub, obj, act

[policy_definition]
p = sub, obj, act

[policy_effect]
e = some(where (p.eft == allow))

[matchers]
m = r.sub == p.sub && (r.obj == p.obj || p.obj ==  "*") && (r.act == p.act || p.act == "*") || r.sub == "root"
`

func c05Accounts(dir string, pol int) *accounts.Config {
	os.MkdirAll(dir, 0o755)
	mf, pf := filepath.Join(dir, "model.conf"), filepath.Join(dir, fmt.Sprintf("policy%d.csv", pol))
	os.WriteFile(mf, []byte(c05Model), 0o644)
	var sb strings.Builder
	sb.WriteString("p, alice, *, *\n")
	sb.WriteString("p, dave, *, *\n")
	for _, r := range c05Policies[pol] {
		fmt.Fprintf(&sb, "p, %s, %s, %s\n", r.Sub, r.Obj, r.Act)
	}
	os.WriteFile(pf, []byte(sb.String()), 0o644)
	var creds accounts.BasicAuth
	for _, u := range c05Users {
		if u.valid() {
			creds = append(creds, accounts.BasicCredential{User: u.Login, Password: u.Password})
		}
	}
	return &accounts.Config{Auth: &accounts.AuthConfig{Basic: &creds}, Access: &accounts.AccessConfig{Casbin: &accounts.CasbinAccess{Model: mf, Policy: pf}}}
}

// spy services: the generated Unimplemented servers answer codes.Unimplemented,
// which can only be observed if the interceptor chain let the call through.
type spyEdit struct {
	gripql.UnimplementedEditServer
	mu       sync.Mutex
	received []string
}

func (s *spyEdit) BulkAdd(st gripql.Edit_BulkAddServer) error {
	var got []string
	for {
		e, err := st.Recv()
		if err != nil {
			break
		}
		got = append(got, e.Graph+"/"+e.GetVertex().GetGid())
	}
	s.mu.Lock()
	s.received = got
	s.mu.Unlock()
	return st.SendAndClose(&gripql.BulkEditResult{InsertCount: int32(len(got))})
}

type c05Spy struct {
	addr string
	edit *spyEdit
	srv  *grpc.Server
}

func c05StartSpy(acc *accounts.Config) *c05Spy {
	lis, err := net.Listen("tcp", "127.0.0.1:0")
	if err != nil {
		panic(err)
	}
	srv := grpc.NewServer(grpc.UnaryInterceptor(acc.UnaryInterceptor()), grpc.StreamInterceptor(acc.StreamInterceptor()))
	spy := &c05Spy{addr: lis.Addr().String(), edit: &spyEdit{}, srv: srv}
	gripql.RegisterQueryServer(srv, &gripql.UnimplementedQueryServer{})
	gripql.RegisterJobServer(srv, &gripql.UnimplementedJobServer{})
	gripql.RegisterEditServer(srv, spy.edit)
	gripql.RegisterConfigureServer(srv, &gripql.UnimplementedConfigureServer{})
	go srv.Serve(lis)
	return spy
}

func c05Ctx(u c05User) context.Context {
	ctx := context.Background()
	if u.Login != "" {
		ctx = metadata.AppendToOutgoingContext(ctx, "Authorization", "Basic "+base64.StdEncoding.EncodeToString([]byte(u.Login+":"+u.Password)))
	}
	return ctx
}

type c05Env struct {
	spies map[int]*c05Spy
	conns map[string]*grpc.ClientConn
	lives map[int]*gq.LiveServer
	open  *c05Spy
}

func c05Setup(w *fw.Worker) *c05Env {
	return w.State("c05", func() interface{} {
		return &c05Env{spies: map[int]*c05Spy{}, conns: map[string]*grpc.ClientConn{}, lives: map[int]*gq.LiveServer{}}
	}).(*c05Env)
}

func (env *c05Env) conn(addr string) *grpc.ClientConn {
	if c, ok := env.conns[addr]; ok {
		return c
	}
	c, err := grpc.Dial(addr, grpc.WithInsecure())
	if err != nil {
		panic(err)
	}
	env.conns[addr] = c
	return c
}

func c05Method(name string) gq.Method {
	p := strings.SplitN(name, "/", 2)
	return gq.MethodByName(p[0], p[1])
}

func c05Exec(w *fw.Worker, c fw.Case) fw.Result {
	var cc c05Case
	c.Decode(&cc)
	env := c05Setup(w)
	u := c05Users[cc.User]
	res := fw.HeldR(true, "")
	res.AddSet("layers", cc.Layer)
	switch cc.Layer {
	case "spy", "noaccounts":
		var spy *c05Spy
		if cc.Layer == "noaccounts" {
			if env.open == nil {
				env.open = c05StartSpy(&accounts.Config{})
			}
			spy = env.open
		} else {
			if env.spies[cc.Policy] == nil {
				env.spies[cc.Policy] = c05StartSpy(c05Accounts(w.NewDir("acc"), cc.Policy))
			}
			spy = env.spies[cc.Policy]
		}
		m := c05Method(cc.Method)
		res.AddSet("methods", cc.Method)
		var reqs []proto.Message
		if !m.ClientStreaming {
			reqs = []proto.Message{c05Request(m, cc.Graph)}
		} else {
			reqs = []proto.Message{&gripql.GraphElement{Graph: cc.Graph, Vertex: &gripql.Vertex{Gid: "v", Label: "L"}}}
		}
		rep := gq.InvokeMsgs(c05Ctx(u), env.conn(spy.addr), m, reqs)
		invoked := rep.Code == codes.Unimplemented || (m.ClientStreaming && rep.OK())
		op := c05OpClass(m)
		graph := "*"
		if !m.ClientStreaming {
			graph = c05GraphOf(reqs[0])
		}
		want := true
		if cc.Layer == "spy" {
			want = u.valid() && c05Allowed(cc.Policy, u.Login, graph, op)
			if m.ClientStreaming {
				want = u.valid() // the stream opens; elements are filtered one by one
			}
		}
		detail := map[string]interface{}{"method": m.Full, "user": u.Name, "graph": graph, "operation_class": op, "policy": c05Policies[cc.Policy], "accounts": cc.Layer == "spy", "reply_code": rep.Code.String(), "reply_error": rep.Err, "handler_invoked": invoked, "expected_invoked": want}
		if invoked != want {
			kind := "handler-ran-without-permission"
			if want {
				kind = "refused-although-permitted"
			}
			return fw.ViolatedR(fmt.Sprintf("%s:%s:%s", cc.Layer, cc.Method, kind), fmt.Sprintf("%s as %s on %s (class %s, policy %v, accounts=%v): handler invoked=%v, expected %v (reply %s %s)", m.Full, u.Name, graph, op, c05Policies[cc.Policy], cc.Layer == "spy", invoked, want, rep.Code, rep.Err), detail)
		}
		if !invoked && cc.Layer == "spy" {
			wantCode := codes.PermissionDenied
			if !u.valid() {
				wantCode = codes.Unauthenticated
			}
			if rep.Code != wantCode {
				return fw.ViolatedR(fmt.Sprintf("spy:%s:denial-code", cc.Method), fmt.Sprintf("%s as %s: denied with %s (%s), expected %s", m.Full, u.Name, rep.Code, rep.Err, wantCode), detail)
			}
		}
		res.AddSet("outcomes", fmt.Sprintf("invoked=%v", invoked))
	case "bulk":
		if env.spies[cc.Policy] == nil {
			env.spies[cc.Policy] = c05StartSpy(c05Accounts(w.NewDir("acc"), cc.Policy))
		}
		spy := env.spies[cc.Policy]
		spy.edit.mu.Lock()
		spy.edit.received = nil
		spy.edit.mu.Unlock()
		cl := gripql.NewEditClient(env.conn(spy.addr))
		st, err := cl.BulkAdd(c05Ctx(u))
		var want []string
		if err == nil {
			for i, t := range cc.Targets {
				st.Send(&gripql.GraphElement{Graph: t, Vertex: &gripql.Vertex{Gid: fmt.Sprintf("b%d", i), Label: "L"}})
				if u.valid() && c05Allowed(cc.Policy, u.Login, t, "write") {
					want = append(want, fmt.Sprintf("%s/b%d", t, i))
				}
			}
			_, err = st.CloseAndRecv()
		}
		spy.edit.mu.Lock()
		got := append([]string{}, spy.edit.received...)
		spy.edit.mu.Unlock()
		detail := map[string]interface{}{"user": u.Name, "policy": c05Policies[cc.Policy], "targets": cc.Targets, "received_by_handler": got, "permitted": want, "error": fmt.Sprint(err)}
		if strings.Join(got, ",") != strings.Join(want, ",") {
			return fw.ViolatedR("bulk:filter", fmt.Sprintf("BulkAdd as %s (policy %v) over graphs %v: the handler received %v, the policy permits exactly %v", u.Name, c05Policies[cc.Policy], cc.Targets, got, want), detail)
		}
		if !u.valid() && err == nil {
			return fw.ViolatedR("bulk:unauthenticated", "BulkAdd without valid credentials succeeded", detail)
		}
		res.AddSet("outcomes", fmt.Sprintf("received=%d", len(got)))
	case "live":
		return c05Live(w, env, cc, u)
	}
	return res
}

// ---------------------------------------------------------------------------
// live server: end-to-end verdicts and "no effect"

func c05LiveServer(w *fw.Worker, env *c05Env, pol int) *gq.LiveServer {
	if ls, ok := env.lives[pol]; ok {
		return ls
	}
	dir := w.NewDir("live")
	acc := c05Accounts(filepath.Join(dir, "acc"), pol)
	ls, err := gq.StartServer(dir, gq.ServerOpts{Accounts: acc, User: "alice", Password: "pw-alice"})
	if err != nil {
		panic(err)
	}
	// population through the driver itself, then let the server learn the graphs
	for _, g := range []string{"g1", "g2"} {
		ls.E.AddGraph(context.Background(), &gripql.GraphID{Graph: g})
		gi, err := ls.DB.Graph(g)
		if err != nil {
			panic(err)
		}
		gi.AddVertex([]*gdbi.Vertex{{ID: "x1", Label: "L", Data: map[string]interface{}{"secret": g}}, {ID: "a", Label: "L"}, {ID: "b", Label: "L"}})
		gi.AddEdge([]*gdbi.Edge{{ID: "x1", Label: "r", From: "a", To: "b"}})
	}
	env.lives[pol] = ls
	return ls
}

func httpRule(m gq.Method) (verb, path, body string, ok bool) {
	sd := gripql.File_gripql_proto.Services().ByName(protoreflect.Name(m.Service))
	md := sd.Methods().ByName(protoreflect.Name(m.Name))
	ext := proto.GetExtension(md.Options(), annotations.E_Http)
	rule, _ := ext.(*annotations.HttpRule)
	if rule == nil {
		return "", "", "", false
	}
	switch p := rule.Pattern.(type) {
	case *annotations.HttpRule_Get:
		return "GET", p.Get, rule.Body, true
	case *annotations.HttpRule_Post:
		return "POST", p.Post, rule.Body, true
	case *annotations.HttpRule_Delete:
		return "DELETE", p.Delete, rule.Body, true
	case *annotations.HttpRule_Put:
		return "PUT", p.Put, rule.Body, true
	}
	return "", "", "", false
}

func c05HTTP(base string, m gq.Method, req proto.Message, u c05User) (int, string, error) {
	verb, path, body, ok := httpRule(m)
	if !ok {
		return 0, "", fmt.Errorf("no http rule")
	}
	b, _ := protojson.Marshal(req)
	var fields map[string]interface{}
	json.Unmarshal(b, &fields)
	for k, v := range fields {
		if s, isStr := v.(string); isStr && strings.Contains(path, "{"+k+"}") {
			path = strings.ReplaceAll(path, "{"+k+"}", url.PathEscape(s))
			delete(fields, k)
		}
	}
	var rd io.Reader
	switch body {
	case "*":
		bb, _ := json.Marshal(fields)
		rd = strings.NewReader(string(bb))
	case "":
	default:
		bb, _ := json.Marshal(fields[body])
		rd = strings.NewReader(string(bb))
	}
	hr, err := http.NewRequest(verb, base+path, rd)
	if err != nil {
		return 0, "", err
	}
	if u.Login != "" {
		hr.SetBasicAuth(u.Login, u.Password)
	}
	hr.Header.Set("Content-Type", "application/json")
	cl := &http.Client{Timeout: 30 * time.Second}
	resp, err := cl.Do(hr)
	if err != nil {
		return 0, "", err
	}
	defer resp.Body.Close()
	out, _ := io.ReadAll(resp.Body)
	return resp.StatusCode, string(out), nil
}

func c05Live(w *fw.Worker, env *c05Env, cc c05Case, u c05User) fw.Result {
	ls := c05LiveServer(w, env, cc.Policy)
	m := c05Method(cc.Method)
	req := c05Request(m, cc.Graph)
	op := c05OpClass(m)
	graph := c05GraphOf(req)
	want := u.valid() && c05Allowed(cc.Policy, u.Login, graph, op)
	res := fw.HeldR(true, "")
	res.AddSet("layers", map[bool]string{true: "live-http", false: "live-grpc"}[cc.HTTP])
	res.AddSet("methods", cc.Method)
	if m.Service == "Configure" && cc.HTTP {
		return fw.HeldR(false, "configure-http") // plugins are disabled: the gateway registers a null server without interceptors
	}
	before := ""
	if !want {
		before = c05State(ls)
	}
	denied := false
	var info string
	if cc.HTTP {
		code, body, err := c05HTTP(ls.HTTP, m, req, u)
		if err != nil {
			return fw.InconclusiveR("http: " + err.Error())
		}
		low := strings.ToLower(body)
		// the gateway maps Unauthenticated/PermissionDenied to 401/403; a streaming call reports the
		// status inside the body; an error text that merely quotes an inner failure (HTTP 500) is not a refusal
		denied = code == 401 || code == 403 || (code == 200 && strings.Contains(low, "permissiondenied")) || (strings.Contains(low, "\"unknown method\""))
		info = fmt.Sprintf("HTTP %d %s", code, gq.Trunc(body, 200))
		if !want && strings.Contains(body, "\"secret\"") {
			return fw.ViolatedR(fmt.Sprintf("live-http:%s:data-leak", cc.Method), fmt.Sprintf("%s over HTTP as %s on %s returned element data although the call is not permitted: %s", m.Full, u.Name, graph, info), cc)
		}
	} else {
		conn, err := ls.Dial(u.Login, u.Password)
		if err != nil {
			return fw.InconclusiveR("dial: " + err.Error())
		}
		rep := gq.InvokeMsgs(context.Background(), conn, m, []proto.Message{req})
		conn.Close()
		denied = rep.Code == codes.Unauthenticated || rep.Code == codes.PermissionDenied || (rep.Code == codes.Unknown && strings.Contains(rep.Err, "Unknown method"))
		info = fmt.Sprintf("%s %s %v", rep.Code, gq.Trunc(rep.Err, 200), len(rep.Messages))
		if !want {
			for _, mm := range rep.Messages {
				if strings.Contains(mm, "secret") {
					return fw.ViolatedR(fmt.Sprintf("live-grpc:%s:data-leak", cc.Method), fmt.Sprintf("%s as %s on %s returned element data although the call is not permitted", m.Full, u.Name, graph), cc)
				}
			}
		}
	}
	detail := map[string]interface{}{"method": m.Full, "user": u.Name, "graph": graph, "operation_class": op, "policy": c05Policies[cc.Policy], "http": cc.HTTP, "answer": info, "denied": denied, "expected_permitted": want}
	layer := map[bool]string{true: "live-http", false: "live-grpc"}[cc.HTTP]
	if want && denied {
		return fw.ViolatedR(fmt.Sprintf("%s:%s:refused-although-permitted", layer, cc.Method), fmt.Sprintf("%s as %s on %s (class %s, policy %v) was refused: %s", m.Full, u.Name, graph, op, c05Policies[cc.Policy], info), detail)
	}
	if !want && !denied {
		return fw.ViolatedR(fmt.Sprintf("%s:%s:handler-ran-without-permission", layer, cc.Method), fmt.Sprintf("%s as %s on %s (class %s, policy %v) was answered without an authentication/permission error: %s", m.Full, u.Name, graph, op, c05Policies[cc.Policy], info), detail)
	}
	if !want {
		if after := c05State(ls); after != before {
			return fw.ViolatedR(fmt.Sprintf("%s:%s:effect-of-denied-call", layer, cc.Method), fmt.Sprintf("%s as %s on %s was denied but changed the stored graphs", m.Full, u.Name, graph), detail)
		}
	} else if m.Service == "Edit" || m.Name == "Submit" || m.Name == "DeleteJob" {
		// a permitted edit may change things: put the population back
		for _, g := range []string{"g1", "g2"} {
			ls.E.AddGraph(context.Background(), &gripql.GraphID{Graph: g})
			if gi, err := ls.DB.Graph(g); err == nil {
				gi.AddVertex([]*gdbi.Vertex{{ID: "x1", Label: "L", Data: map[string]interface{}{"secret": g}}, {ID: "a", Label: "L"}, {ID: "b", Label: "L"}})
				gi.AddEdge([]*gdbi.Edge{{ID: "x1", Label: "r", From: "a", To: "b"}})
				gi.DelVertex("c05v")
				gi.DelEdge("c05e")
			}
		}
	}
	res.AddSet("outcomes", fmt.Sprintf("permitted=%v", want))
	return res
}

func c05State(ls *gq.LiveServer) string {
	st := fullState(ls.DB, nil)
	var ks []string
	for k := range st {
		ks = append(ks, k)
	}
	sort.Strings(ks)
	var sb strings.Builder
	for _, k := range ks {
		sb.WriteString(k + "=" + st[k] + "\n")
	}
	return sb.String()
}

func init() {
	fw.Register(&fw.Property{
		ID:   "C05",
		Rule: "methods are enumerated by reflection from the four gripql service descriptors (34 methods). Layer 1 (spy): a real grpc.Server on loopback with exactly the accounts interceptor chain (Basic auth + Casbin policy files generated per case) and the generated Unimplemented services as spies - the reply code Unimplemented can only be produced if the chain let the call through - for every method x 9 users (no credentials, bad password, a name the policy grants everything but that has no account - with a password and with an empty one -, a known user with an empty password, full rights, limited, no rules, root) x 2 graphs x 12 policies (per operation class, wildcard object, wildcard action); oracle = my own evaluator of the three-field policy with the operation class derived from the documented naming rule, not from accounts.MethodMap; denials must carry Unauthenticated/PermissionDenied. BulkAdd: every graph pattern of length <= 3, a spy handler must receive exactly the permitted elements in order. No accounts: every method must reach its handler. Layer 2 (live): a real GripServer on Badger with the same accounts, every method over gRPC and over the HTTP gateway (routes read from the google.api.http options); a denied call must be refused, return no element data and leave the complete state of all graphs unchanged. Every case is non-trivial.",
		Assumptions: []string{
			"a method that has no operation class in the server's table must fail closed when accounts are configured and stay callable when none are",
			"on the live server 'refused' is read from the reply: Unauthenticated / PermissionDenied / 'Unknown method' (gRPC), 401/403 or those words in the body (HTTP)",
			"the Configure service is not exercised over HTTP (plugins disabled: the gateway serves a null implementation)",
		},
		Exhaustive:  true,
		BatchSize:   300,
		CaseTimeout: 120 * time.Second,
		Gen:         c05Gen,
		Exec:        c05Exec,
		Sample: func(c fw.Case, r fw.Result) interface{} {
			var cc c05Case
			c.Decode(&cc)
			return map[string]interface{}{"layer": cc.Layer, "method": cc.Method, "user": c05Users[cc.User].Name, "graph": cc.Graph, "policy": c05Policies[cc.Policy], "http": cc.HTTP, "bulk_targets": cc.Targets, "outcome": r.Sets["outcomes"]}
		},
	})
}
