package main

import (
	"context"
	"encoding/json"
	"fmt"
	"io"
	"os"
	"path/filepath"
	"sort"
	"strings"
	"time"

	"github.com/bmeg/grip/gdbi"
	"github.com/bmeg/grip/gripql"

	"verifharness/fw"
	"verifharness/gq"
	"verifharness/model"
)

// C11 – jobs faithfully store, resume and find traversals.

type c11Case struct {
	Stmts []json.RawMessage `json:"stmts,omitempty"`
	Name  string            `json:"name"`
	Graph string            `json:"graph,omitempty"`
	// scenario cases
	Jobs    []c11Job `json:"jobs,omitempty"`
	Queries []c11Job `json:"queries,omitempty"`
}

type c11Job struct {
	Graph string            `json:"graph"`
	Stmts []json.RawMessage `json:"stmts"`
}

func c11Programs() []seqDef {
	q := gripql.NewQuery()
	lt := func(n int) *gripql.HasExpression { return cond("LT", "idx", float64(n)) }
	progs := []seqDef{
		sq("V()", q.V()),
		sq("V().out()", q.V().Out()),
		sq("V().outE()", q.V().OutE()),
		sq("E().out().in()", q.E().Out().In()),
		sq("V().out().count()", q.V().Out().Count()),
		sq("V().as(a).outE().as(b).out().select(a,b)", q.V().As("a").OutE().As("b").Out().Select("a", "b")),
		{"V().as(a).out().render", flat(q.V().As("a").Out().Statements, []*gripql.GraphStatement{renderStmt(M{"g": "_gid", "a": "$a.p", "p": "p"})})},
		{"V().out().outE().path()", flat(q.V().Out().OutE().Statements, []*gripql.GraphStatement{{Statement: &gripql.GraphStatement_Path{}}})},
		sq("V().hasLabel(P).out().hasLabel(Q)", q.V().HasLabel("P").Out().HasLabel("Q")),
		sq("V(a).out().out().out()", q.V("a").Out().Out().Out()),
		sq("V().hasLabel(nolabel)", q.V().HasLabel("nolabel")),
		sq("V().out().distinct()", q.V().Out().Distinct()),
		sq("V().as(a).out().select(a)", q.V().As("a").Out().Select("a")),
		sq("V().outE().as(e).out().select(e)", q.V().OutE().As("e").Out().Select("e")),
		sq("V().out().fields(p)", q.V().Out().Fields("p")),
		// marks on steps whose data the stored prefix itself never reads (every split point is resumed)
		{"V().outE().as(e).in().as(b).render($e.p)", flat(q.V().OutE().As("e").In().As("b").Statements, []*gripql.GraphStatement{renderStmt(M{"w": "$e.p", "g": "_gid", "b": "$b.p"})})},
		sq("V().bothE().as(e).both().has(gt($e.p,0))", q.V().BothE().As("e").Both().Has(cond("GT", "$e.p", 0.0))),
		{"V().aggregate(term,count)", q.V().Aggregate([]*gripql.Aggregate{{Name: "t", Aggregation: &gripql.Aggregate_Term{Term: &gripql.TermAggregation{Field: "p"}}}, {Name: "c", Aggregation: &gripql.Aggregate_Count{Count: &gripql.CountAggregation{}}}}).Statements},
		sq("V().out().limit(2)", q.V().Out().Limit(2)),
		sq("V().hasKey(p).out()", q.V().HasKey("p").Out()),
		{"loop", flat(q.V("a").Statements, []*gripql.GraphStatement{gsSet("c", 0.0), mkStmt(q.As("s")), gsMark("m")}, q.Out().Statements,
			[]*gripql.GraphStatement{gsInc("$s.c", 1), mkStmt(q.Has(cond("LT", "$s.c", 3.0))), gsJump("m", nil, true)})},
	}
	for _, n := range []int{0, 1, 3, 4, 5, 39, 40, 41, 4999, 5000, 5001} {
		progs = append(progs, seqDef{fmt.Sprintf("big:V().has(lt(idx,%d))", n), q.V().Has(lt(n)).Statements})
	}
	// rows of 70 KB and 1.2 MB among small ones (the stored results are read back line by line)
	progs = append(progs, seqDef{"wide:V()", q.V().Statements}, seqDef{"wide:V().as(a).out().select(a)", q.V().As("a").Out().Select("a").Statements},
		seqDef{"wide:V().has(lt(idx,8)).fields(idx)", q.V().Has(lt(8)).Fields("idx").Statements})
	progs = append(progs, seqDef{"big:V().has(lt(idx,41)).as(a).render", flat(q.V().Has(lt(41)).As("a").Statements, []*gripql.GraphStatement{renderStmt("$a.idx")})})
	return progs
}

func c11Gen(g *fw.GenCtx) []fw.Case {
	var cases []fw.Case
	for _, p := range c11Programs() {
		gr := "pop"
		if strings.HasPrefix(p.Name, "big:") {
			gr = "big"
			if g.Quick() && (strings.Contains(p.Name, "4999") || strings.Contains(p.Name, "5001")) {
				continue
			}
		}
		if strings.HasPrefix(p.Name, "wide:") {
			gr = "wide"
		}
		cases = append(cases, fw.MkCase("job", c11Case{Stmts: gq.StmtJSON(p.Stmts), Name: p.Name, Graph: gr}))
	}
	// random traversals from the C01 program space (order-insensitive ones)
	gg := &fw.GenCtx{Tier: "quick", Seed: g.Seed + 77, Avoid: map[string]bool{}}
	n, want := 0, g.Pick(80, 1500)
	for _, pc := range c01Gen(gg) {
		var p c01Case
		pc.Decode(&p)
		stmts := gq.StmtsFromJSON(p.Stmts)
		if _, _, err := model.TypeCheck(stmts); err != nil || len(stmts) < 3 {
			continue
		}
		if strings.Contains(p.Names, "distinct") || strings.Contains(p.Names, "limit") || strings.Contains(p.Names, "skip") || strings.Contains(p.Names, "range") {
			continue
		}
		n++
		if n%7 != 0 {
			continue
		}
		cases = append(cases, fw.MkCase("job", c11Case{Stmts: p.Stmts, Name: "c01:" + p.Names, Graph: "pop"}))
		if want--; want <= 0 {
			break
		}
	}
	// search scenarios: jobs on two graphs, queries that extend / diverge / are shorter
	q := gripql.NewQuery()
	J := func(gr string, qq *gripql.Query) c11Job { return c11Job{gr, gq.StmtJSON(qq.Statements)} }
	jobs := []c11Job{
		J("pop", q.V().Out()), J("pop", q.V().Out().Out()), J("pop", q.V().HasLabel("P").Out()), J("pop", q.V()), J("pop", q.V("a").Out()), J("pop", q.V("b").Out()),
		J("pop2", q.V().Out()), J("pop2", q.V().Out().In()), J("pop", q.E().Out()), J("pop", q.V().Out("r")), J("pop", q.V().Out("s")), J("pop", q.V().Has(cond("EQ", "p", 1.0)).Out()),
	}
	queries := []c11Job{
		J("pop", q.V().Out().Out().Count()), J("pop", q.V().Out()), J("pop", q.V()), J("pop", q.V().In()), J("pop2", q.V().Out().In().Out()), J("pop", q.V("a").Out().Out()),
		J("pop", q.V("b").Out()), J("pop", q.V("c").Out()), J("pop", q.V().HasLabel("P").Out().Out()), J("pop", q.V().HasLabel("Q").Out()), J("pop", q.E().Out().In()), J("pop3", q.V().Out()),
		J("pop", q.V().Out("r").Out()), J("pop", q.V().Out("s")), J("pop", q.V().Out("r", "s")), J("pop", q.V().Has(cond("EQ", "p", 1.0)).Out().Out()), J("pop", q.V().Has(cond("EQ", "p", 2.0)).Out()),
	}
	cases = append(cases, fw.MkCase("search", c11Case{Name: "search-scenario", Jobs: jobs, Queries: queries}))
	cases = append(cases, fw.MkCase("restart", c11Case{Name: "restart-delete-scenario", Jobs: jobs[:6]}))
	return cases
}

// ---------------------------------------------------------------------------

type c11Env struct {
	ls  *gq.LiveServer
	dir string
}

func c11Populate(ls *gq.LiveServer) {
	ctx := context.Background()
	pop := c06PopGraph()
	pop.E = append(pop.E, me("e7", "r", "e", "a", nil)) // a cycle, so that out().out().out() has rows
	for _, g := range []string{"pop", "pop2"} {
		ls.E.AddGraph(ctx, &gripql.GraphID{Graph: g})
		gi, _ := ls.DB.Graph(g)
		for _, v := range pop.V {
			gi.AddVertex([]*gdbi.Vertex{gq.FromModelElem(v)})
		}
		for _, e := range pop.E {
			gi.AddEdge([]*gdbi.Edge{gq.FromModelElem(e)})
		}
	}
	ls.E.AddGraph(ctx, &gripql.GraphID{Graph: "big"})
	gi, _ := ls.DB.Graph("big")
	var vs []*gdbi.Vertex
	for i := 0; i < 5001; i++ {
		vs = append(vs, &gdbi.Vertex{ID: fmt.Sprintf("b%d", i), Label: "B", Data: map[string]interface{}{"idx": float64(i)}, Loaded: true})
	}
	gi.AddVertex(vs)
	ls.E.AddGraph(ctx, &gripql.GraphID{Graph: "wide"})
	wi, _ := ls.DB.Graph("wide")
	for i := 0; i < 12; i++ {
		d := map[string]interface{}{"idx": float64(i)}
		switch i {
		case 3:
			d["blob"] = strings.Repeat("x", 70*1024)
		case 7:
			d["blob"] = strings.Repeat("y", 1200*1024)
		}
		wi.AddVertex([]*gdbi.Vertex{{ID: fmt.Sprintf("w%d", i), Label: "W", Data: d, Loaded: true}})
		wi.AddEdge([]*gdbi.Edge{{ID: fmt.Sprintf("we%d", i), Label: "r", From: fmt.Sprintf("w%d", i), To: fmt.Sprintf("w%d", (i+1)%12), Loaded: true}})
	}
}

func c11Setup(w *fw.Worker) *c11Env {
	return w.State("c11", func() interface{} {
		dir := w.NewDir("c11srv")
		ls, err := gq.StartServer(dir, gq.ServerOpts{})
		if err != nil {
			panic(err)
		}
		c11Populate(ls)
		return &c11Env{ls: ls, dir: dir}
	}).(*c11Env)
}

func streamRows(recv func() (*gripql.QueryResult, error)) ([]string, error) {
	var rows []*gripql.QueryResult
	for {
		r, err := recv()
		if err == io.EOF {
			break
		}
		if err != nil {
			return gq.CanonRows(rows), err
		}
		rows = append(rows, r)
	}
	return gq.CanonRows(rows), nil
}

func (env *c11Env) direct(graph string, stmts []*gripql.GraphStatement) ([]string, error) {
	st, err := env.ls.Q.Traversal(context.Background(), &gripql.GraphQuery{Graph: graph, Query: stmts})
	if err != nil {
		return nil, err
	}
	return streamRows(st.Recv)
}

func (env *c11Env) submit(graph string, stmts []*gripql.GraphStatement) (*gripql.QueryJob, *gripql.JobStatus, error) {
	ctx := context.Background()
	job, err := env.ls.J.Submit(ctx, &gripql.GraphQuery{Graph: graph, Query: stmts})
	if err != nil {
		return nil, nil, err
	}
	var st *gripql.JobStatus
	for i := 0; i < 4000; i++ {
		st, err = env.ls.J.GetJob(ctx, job)
		if err != nil {
			return job, nil, err
		}
		if st.State == gripql.JobState_COMPLETE || st.State == gripql.JobState_ERROR {
			return job, st, nil
		}
		time.Sleep(5 * time.Millisecond)
	}
	return job, st, fmt.Errorf("job %s still %s after the polling budget", job.Id, st.State)
}

func (env *c11Env) view(job *gripql.QueryJob) ([]string, error) {
	st, err := env.ls.J.ViewJob(context.Background(), job)
	if err != nil {
		return nil, err
	}
	return streamRows(st.Recv)
}

func (env *c11Env) resume(job *gripql.QueryJob, rest []*gripql.GraphStatement) ([]string, error) {
	st, err := env.ls.J.ResumeJob(context.Background(), &gripql.ExtendQuery{SrcId: job.Id, Graph: job.Graph, Query: rest})
	if err != nil {
		return nil, err
	}
	return streamRows(st.Recv)
}

func c11Exec(w *fw.Worker, c fw.Case) fw.Result {
	var cc c11Case
	c.Decode(&cc)
	env := c11Setup(w)
	switch c.Kind {
	case "job":
		return c11Job1(env, cc)
	case "search":
		return c11Search(env, cc)
	case "restart":
		return c11Restart(w, env, cc)
	}
	return fw.InconclusiveR("unknown kind")
}

func c11Job1(env *c11Env, cc c11Case) fw.Result {
	stmts := gq.StmtsFromJSON(cc.Stmts)
	res := fw.HeldR(true, "")
	want, err := env.direct(cc.Graph, stmts)
	if err != nil {
		return fw.InconclusiveR("direct traversal: " + err.Error())
	}
	detail := map[string]interface{}{"query": cc.Name, "graph": cc.Graph, "direct_rows": len(want)}
	job, st, err := env.submit(cc.Graph, stmts)
	if err != nil {
		return fw.InconclusiveR("submit: " + err.Error())
	}
	got, err := env.view(job)
	if err != nil {
		return fw.ViolatedR("view:error", fmt.Sprintf("ViewJob of the completed job for %s failed: %v", cc.Name, err), detail)
	}
	res.Count("rows_compared", int64(len(want)))
	if !gq.SameMultiset(got, want) {
		detail["job_rows"], detail["direct"] = trunc20(got), trunc20(want)
		return fw.ViolatedR("view:rows:"+stepKey(stmts), fmt.Sprintf("job for %s stores %d rows %s, the direct traversal returns %d rows %s", cc.Name, len(got), gq.Trunc(strings.Join(got, " "), 300), len(want), gq.Trunc(strings.Join(want, " "), 300)), detail)
	}
	if int(st.Count) != len(want) {
		return fw.ViolatedR("status:count:"+stepKey(stmts), fmt.Sprintf("job status reports count %d, the traversal returns %d rows (%s)", st.Count, len(want), cc.Name), detail)
	}
	// resume at every split point: job(P[:s]) extended by P[s:] must equal direct P
	for s := 1; s < len(stmts); s++ {
		if _, _, terr := modelTypeElem(stmts[:s]); terr != nil {
			continue
		}
		pj, _, err := env.submit(cc.Graph, stmts[:s])
		if err != nil {
			return fw.InconclusiveR("submit prefix: " + err.Error())
		}
		rg, err := env.resume(pj, stmts[s:])
		res.Count("resumes", 1)
		if err != nil {
			return fw.ViolatedR("resume:error:"+stepKey(stmts), fmt.Sprintf("ResumeJob(job(%s), %s) failed: %v", gq.QueryString(stmts[:s]), gq.QueryString(stmts[s:]), err), detail)
		}
		if !gq.SameMultiset(rg, want) {
			detail["resumed"], detail["direct"] = trunc20(rg), trunc20(want)
			return fw.ViolatedR(fmt.Sprintf("resume:rows:%s@%d", stepKey(stmts), s), fmt.Sprintf("resuming job(%s) with %s returns %d rows, the concatenated traversal %d rows", gq.QueryString(stmts[:s]), gq.QueryString(stmts[s:]), len(rg), len(want)), detail)
		}
		env.ls.J.DeleteJob(context.Background(), pj)
	}
	env.ls.J.DeleteJob(context.Background(), job)
	return res
}

// modelTypeElem reports whether a prefix is a traversal whose rows are
// elements (only those can be resumed) and contains no mark/jump.
func modelTypeElem(stmts []*gripql.GraphStatement) (bool, bool, error) {
	last := stepKey(stmts)
	for _, bad := range []string{"Count", "Render", "Path", "Aggregate", "Mark", "Jump", "Set", "Increment", "Distinct", "Limit"} {
		if strings.Contains(last, bad) {
			return false, false, fmt.Errorf("not resumable")
		}
	}
	parts := strings.Split(last, ">")
	if parts[len(parts)-1] == "Select" {
		sel := stmts[len(stmts)-1].GetSelect()
		if len(sel.GetMarks()) > 1 {
			return false, false, fmt.Errorf("selection")
		}
	}
	return true, true, nil
}

func stmtsEqualPrefix(job, query []json.RawMessage) bool {
	if len(job) > len(query) {
		return false
	}
	for i := range job {
		var a, b interface{}
		json.Unmarshal(job[i], &a)
		json.Unmarshal(query[i], &b)
		x, _ := json.Marshal(a)
		y, _ := json.Marshal(b)
		if string(x) != string(y) {
			return false
		}
	}
	return true
}

func c11Search(env *c11Env, cc c11Case) fw.Result {
	ctx := context.Background()
	res := fw.HeldR(true, "")
	ids := map[string]int{}
	var submitted []*gripql.QueryJob
	for i, j := range cc.Jobs {
		job, _, err := env.submit(j.Graph, gq.StmtsFromJSON(j.Stmts))
		if err != nil {
			return fw.InconclusiveR("submit: " + err.Error())
		}
		ids[job.Id] = i
		submitted = append(submitted, job)
	}
	defer func() {
		for _, j := range submitted {
			env.ls.J.DeleteJob(ctx, j)
		}
	}()
	for qi, q := range cc.Queries {
		st, err := env.ls.J.SearchJobs(ctx, &gripql.GraphQuery{Graph: q.Graph, Query: gq.StmtsFromJSON(q.Stmts)})
		if err != nil {
			return fw.ViolatedR("search:error", "SearchJobs failed: "+err.Error(), cc)
		}
		var got []int
		for {
			js, err := st.Recv()
			if err != nil {
				break
			}
			if i, ok := ids[js.Id]; ok {
				got = append(got, i)
			}
		}
		var want []int
		for i, j := range cc.Jobs {
			if j.Graph == q.Graph && len(j.Stmts) >= 2 && stmtsEqualPrefix(j.Stmts, q.Stmts) {
				want = append(want, i)
			}
		}
		sort.Ints(got)
		res.Count("searches", 1)
		if fmt.Sprint(got) != fmt.Sprint(want) {
			name := func(l []int) []string {
				var o []string
				for _, i := range l {
					o = append(o, cc.Jobs[i].Graph+":"+gq.QueryString(gq.StmtsFromJSON(cc.Jobs[i].Stmts)))
				}
				return o
			}
			return fw.ViolatedR(fmt.Sprintf("search:result:q%d", qi), fmt.Sprintf("SearchJobs(%s:%s) returns jobs %v, the jobs on that graph whose statements are a prefix of the query (>= 2 steps) are %v", q.Graph, gq.QueryString(gq.StmtsFromJSON(q.Stmts)), name(got), name(want)),
				map[string]interface{}{"query": q, "returned": name(got), "expected": name(want)})
		}
	}
	return res
}

func c11Restart(w *fw.Worker, env *c11Env, cc c11Case) fw.Result {
	ctx := context.Background()
	res := fw.HeldR(true, "")
	type rec struct {
		job  *gripql.QueryJob
		rows []string
		j    c11Job
	}
	var recs []rec
	for _, j := range cc.Jobs {
		stmts := gq.StmtsFromJSON(j.Stmts)
		job, _, err := env.submit(j.Graph, stmts)
		if err != nil {
			return fw.InconclusiveR("submit: " + err.Error())
		}
		rows, err := env.view(job)
		if err != nil {
			return fw.InconclusiveR("view: " + err.Error())
		}
		recs = append(recs, rec{job, rows, j})
	}
	// restart the server on the same database and work directories
	env.ls.Stop()
	ls, err := gq.StartServer(env.dir, gq.ServerOpts{})
	if err != nil {
		w.DropState("c11")
		return fw.InconclusiveR("restart: " + err.Error())
	}
	env.ls = ls
	res.Count("restarts", 1)
	for _, r := range recs {
		listed := false
		if st, err := env.ls.J.ListJobs(ctx, &gripql.GraphID{Graph: r.job.Graph}); err == nil {
			for {
				j, err := st.Recv()
				if err != nil {
					break
				}
				if j.Id == r.job.Id {
					listed = true
				}
			}
		}
		detail := map[string]interface{}{"job": r.job.Id, "graph": r.job.Graph, "query": gq.QueryString(gq.StmtsFromJSON(r.j.Stmts))}
		if !listed {
			return fw.ViolatedR("restart:not-listed", fmt.Sprintf("after a server restart the completed job %s (%s) is no longer listed", r.job.Id, detail["query"]), detail)
		}
		st, err := env.ls.J.GetJob(ctx, r.job)
		if err != nil || st.State != gripql.JobState_COMPLETE || int(st.Count) != len(r.rows) {
			return fw.ViolatedR("restart:status", fmt.Sprintf("after a server restart job %s has status %v / %v (expected COMPLETE, count %d)", r.job.Id, st, err, len(r.rows)), detail)
		}
		rows, err := env.view(r.job)
		if err != nil || !gq.SameMultiset(rows, r.rows) {
			return fw.ViolatedR("restart:view", fmt.Sprintf("after a server restart job %s reads back %d rows (error %v), before the restart %d", r.job.Id, len(rows), err, len(r.rows)), detail)
		}
		stmts := gq.StmtsFromJSON(r.j.Stmts)
		if ok, _, terr := modelTypeElem(stmts); ok && terr == nil {
			ext := gripql.NewQuery().Out().Statements
			want, _ := env.direct(r.j.Graph, append(append([]*gripql.GraphStatement{}, stmts...), ext...))
			rg, err := env.resume(r.job, ext)
			if err != nil || !gq.SameMultiset(rg, want) {
				return fw.ViolatedR("restart:resume", fmt.Sprintf("after a server restart resuming job %s with .out() returns %d rows (error %v), the direct traversal %d", r.job.Id, len(rg), err, len(want)), detail)
			}
		}
		res.Count("jobs_checked_after_restart", 1)
	}
	// deletion
	for _, r := range recs {
		if _, err := env.ls.J.DeleteJob(ctx, r.job); err != nil {
			return fw.ViolatedR("delete:error", "DeleteJob failed: "+err.Error(), nil)
		}
		if st, err := env.ls.J.GetJob(ctx, r.job); err == nil {
			return fw.ViolatedR("delete:still-readable", fmt.Sprintf("deleted job %s still has a status: %v", r.job.Id, st), nil)
		}
		if rows, _ := env.view(r.job); len(rows) > 0 {
			return fw.ViolatedR("delete:still-readable", fmt.Sprintf("deleted job %s still returns %d rows", r.job.Id, len(rows)), nil)
		}
		if st, err := env.ls.J.ListJobs(ctx, &gripql.GraphID{Graph: r.job.Graph}); err == nil {
			for {
				j, err := st.Recv()
				if err != nil {
					break
				}
				if j.Id == r.job.Id {
					return fw.ViolatedR("delete:still-listed", fmt.Sprintf("deleted job %s is still listed", r.job.Id), nil)
				}
			}
		}
		if m, _ := filepath.Glob(filepath.Join(env.dir, "work", "jobs", "*", r.job.Id)); len(m) > 0 {
			if _, err := os.Stat(m[0]); err == nil {
				return fw.ViolatedR("delete:files-remain", fmt.Sprintf("deleted job %s still has files at %s", r.job.Id, m[0]), nil)
			}
		}
		res.Count("jobs_deleted", 1)
	}
	return res
}

func init() {
	fw.Register(&fw.Property{
		ID:   "C11",
		Rule: "on the Job service of a live server (gRPC): for 30 hand-picked traversals covering every result type plus 80 / 1500 random traversals from the C01 program space (vertices, edges, count, selection of mixed vertex/edge marks, render, path, aggregation, marks, a mark/jump loop) rows of 70 KB and 1.2 MB, and result sizes 0,1,3,4,5,39,40,41,5000 (4999/5001 in thorough; worker pool 4, channels 10/40, pipeline buffer 5000): the rows ViewJob returns for the completed job equal, as a multiset, the rows of the direct traversal, Status.Count equals their number, and for EVERY split point s with an element-typed prefix ResumeJob(job(P[:s]), P[s:]) equals direct P; a search scenario (12 jobs on 2 graphs, 17 queries) against a prefix-match model; a restart scenario (server stopped and started again on the same directories: jobs listed, status, readable, resumable) followed by deletion (not listed, not readable, files gone). Completion is awaited by polling GetJob a bounded number of times.",
		Assumptions: []string{
			"only jobs whose rows are vertices or edges are resumed (the docs resume element streams)",
			"job completion is awaited by polling; a job that is still running after the polling budget makes the case inconclusive, not violated",
		},
		BatchSize:   4,
		CaseTimeout: 300 * time.Second,
		Gen:         c11Gen,
		Exec:        c11Exec,
		Sample: func(c fw.Case, r fw.Result) interface{} {
			var cc c11Case
			c.Decode(&cc)
			return map[string]interface{}{"kind": c.Kind, "name": cc.Name, "graph": cc.Graph, "counters": r.Counters}
		},
	})
}
