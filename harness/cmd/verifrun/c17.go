package main

import (
	"context"
	"fmt"
	"io"
	"math/rand"
	"os"
	"runtime"
	"sort"
	"strings"
	"sync"
	"sync/atomic"
	"time"

	"github.com/bmeg/grip/engine"
	"github.com/bmeg/grip/gdbi"
	"github.com/bmeg/grip/gripql"
	"github.com/bmeg/grip/util"
	multierror "github.com/hashicorp/go-multierror"

	"verifharness/fw"
	"verifharness/gq"
	"verifharness/model"
)

// C17 – concurrent clients cannot corrupt or crash the server.
//
// K client sessions run seeded scripts against one live GripServer over
// loopback gRPC inside a -race worker. Every call is recorded at the client
// boundary (call/return stamps from one monotonic counter). Oracles:
//   - the race detector (reports are collected by the driver, keyed by the
//     pair of racing functions; every key must be listed);
//   - liveness: a fatal error ends the worker and is attributed to the case;
//   - private keys (ids only one client touches) behave sequentially: every
//     read and the final state equal that client's own history;
//   - hot keys: every value read was written by some client before the read
//     returned, and the final state is explained by an order of the
//     acknowledged edits that respects every client's program order
//     (constraint graph over write ops, acyclicity);
//   - quiescent structural invariants of the stored graph (index vs data).

type c17Case struct {
	Profile string `json:"profile"`
	Clients int    `json:"clients"`
	Ops     int    `json:"ops"`
	Seed    int64  `json:"seed"`
	Procs   int    `json:"procs"`
}

func c17Gen(g *fw.GenCtx) []fw.Case {
	var cases []fw.Case
	rep := g.Pick(3, 20)
	for r := 0; r < rep; r++ {
		for _, prof := range []string{"mixed", "hot", "disjoint", "graphs", "schema", "jobs", "bulk", "tempstores", "relabel"} {
			for _, k := range []int{2, 4, 8, 32} {
				ops := 40
				if k == 32 {
					ops = 10
				}
				if prof == "tempstores" {
					// every distinct() opens a temporary Badger store (seconds under the race detector)
					if k > 4 {
						continue
					}
					ops = 3
				}
				procs := []int{16, 2, 4, 1}[(r+k)%4]
				cases = append(cases, fw.MkCase("session", c17Case{Profile: prof, Clients: k, Ops: ops, Seed: g.Seed*1000 + int64(r), Procs: procs}))
			}
		}
		for _, k := range []int{2, 8} {
			cases = append(cases, fw.MkCase("tempkv", c17Case{Clients: k, Ops: 2, Seed: g.Seed*1000 + int64(r), Procs: 16}))
			cases = append(cases, fw.MkCase("streambatch", c17Case{Clients: k, Ops: 400, Seed: g.Seed*1000 + int64(r), Procs: 16}))
		}
	}
	return cases
}

// ---------------------------------------------------------------------------
// history

type c17Effect struct {
	Key   string // "v:<id>" or "e:<id>"
	Del   bool
	Val   string
	Label string
}

type c17Op struct {
	Client, Seq int
	Kind        string
	Graph       string
	Effects     []c17Effect // for writes (cascades included)
	ReadKey     string      // for point reads
	Call, Ret   int64
	OK          bool
	Err         string
	Found       bool
	Val         string
	Rows        [][2]string // (key, val) pairs returned by a scan
	Private     bool
}

type c17Hist struct {
	mu    sync.Mutex
	clock int64
	ops   []*c17Op
}

func (h *c17Hist) tick() int64 { return atomic.AddInt64(&h.clock, 1) }

func (h *c17Hist) add(o *c17Op) {
	h.mu.Lock()
	h.ops = append(h.ops, o)
	h.mu.Unlock()
}

// edges of the case universe: the id fixes the endpoints and the label
type c17EdgeDef struct{ ID, From, To, Label string }

type c17World struct {
	graph  string
	hotV   []string
	hotE   []c17EdgeDef
	privV  map[int][]string
	privE  map[int][]c17EdgeDef
	edgeBy map[string]c17EdgeDef
}

func c17MkWorld(graph string, clients int) *c17World {
	w := &c17World{graph: graph, hotV: []string{"h0", "h1", "h2"}, privV: map[int][]string{}, privE: map[int][]c17EdgeDef{}, edgeBy: map[string]c17EdgeDef{}}
	for i, p := range [][2]string{{"h0", "h1"}, {"h1", "h2"}, {"h2", "h0"}, {"h0", "h0"}} {
		w.hotE = append(w.hotE, c17EdgeDef{fmt.Sprintf("he%d", i), p[0], p[1], []string{"r", "s"}[i%2]})
	}
	for c := 0; c < clients; c++ {
		for k := 0; k < 3; k++ {
			w.privV[c] = append(w.privV[c], fmt.Sprintf("p%d_%d", c, k))
		}
		for i, p := range [][2]int{{0, 1}, {1, 2}, {2, 2}} {
			w.privE[c] = append(w.privE[c], c17EdgeDef{fmt.Sprintf("pe%d_%d", c, i), w.privV[c][p[0]], w.privV[c][p[1]], []string{"r", "s"}[i%2]})
		}
	}
	for _, e := range w.hotE {
		w.edgeBy[e.ID] = e
	}
	for _, es := range w.privE {
		for _, e := range es {
			w.edgeBy[e.ID] = e
		}
	}
	return w
}

func (w *c17World) cascade(vid string) []c17Effect {
	var out []c17Effect
	var ids []string
	for id := range w.edgeBy {
		ids = append(ids, id)
	}
	sort.Strings(ids)
	for _, id := range ids {
		e := w.edgeBy[id]
		if e.From == vid || e.To == vid {
			out = append(out, c17Effect{Key: "e:" + id, Del: true})
		}
	}
	return out
}

// ---------------------------------------------------------------------------
// one client session

type c17Client struct {
	id    int
	ls    *gq.LiveServer
	w     *c17World
	h     *c17Hist
	rng   *rand.Rand
	seq   int
	prof  string
	priv  map[string]string // sequential model of the private keys: key -> val ("" = absent)
	jobs  []*gripql.QueryJob
	pgra  bool   // private graph exists
	pgval string // value of vertex x in the private graph
	psch  string // marker of the private graph's schema
	fail  *atomic.Value
	nStat int
}

func (c *c17Client) val() string { c.seq++; return fmt.Sprintf("c%d.%d", c.id, c.seq) }

func (c *c17Client) violate(key, msg string, detail interface{}) {
	if c.fail.Load() == nil {
		r := fw.ViolatedR(key, msg, detail)
		c.fail.Store(&r)
	}
}

func (c *c17Client) record(o *c17Op, f func() error) {
	o.Client, o.Seq, o.Graph = c.id, c.seq, c.w.graph
	o.Call = c.h.tick()
	err := f()
	o.Ret = c.h.tick()
	o.OK = err == nil
	if err != nil {
		o.Err = err.Error()
	}
	c.h.add(o)
}

func vertexOf(id, label, val string) *gripql.Vertex {
	return &gripql.Vertex{Gid: id, Label: label, Data: gq.Struct(M{"val": val})}
}

func valOf(data map[string]interface{}) string {
	if s, ok := data["val"].(string); ok {
		return s
	}
	return "?"
}

func (c *c17Client) pickV(hot bool) string {
	if hot {
		return c.w.hotV[c.rng.Intn(len(c.w.hotV))]
	}
	return c.w.privV[c.id][c.rng.Intn(3)]
}

func (c *c17Client) pickE(hot bool) c17EdgeDef {
	if hot {
		return c.w.hotE[c.rng.Intn(len(c.w.hotE))]
	}
	return c.w.privE[c.id][c.rng.Intn(3)]
}

func (c *c17Client) applyPriv(effs []c17Effect) {
	for _, e := range effs {
		if _, mine := c.priv[e.Key]; !mine {
			continue
		}
		if e.Del {
			c.priv[e.Key] = ""
		} else {
			c.priv[e.Key] = e.Val
		}
	}
}

func (c *c17Client) step() {
	ctx := context.Background()
	g := c.w.graph
	hotP := map[string]int{"mixed": 50, "hot": 100, "disjoint": 0, "bulk": 50, "relabel": 100}[c.prof]
	hot := c.rng.Intn(100) < hotP
	kinds := []string{"addV", "addV", "addE", "addE", "delV", "delE", "getV", "getV", "getE", "scanV", "scanE", "adj", "labels"}
	switch c.prof {
	case "tempstores":
		kinds = []string{"distinct2", "distinct2", "addV"}
	case "relabel":
		// the shared vertices are written again and again under alternating labels
		kinds = []string{"addV", "addV", "addV", "addV", "addV", "addV", "getV", "scanV", "delV"}
	case "graphs":
		kinds = []string{"pgAdd", "pgDel", "pgPut", "pgGet", "listGraphs", "hgAdd", "hgDel", "addV", "getV"}
	case "schema":
		kinds = []string{"schAdd", "schGet", "pschAdd", "pschGet", "addV", "getV", "labels"}
	case "jobs":
		kinds = []string{"submit", "submit", "getJob", "listJobs", "viewJob", "delJob", "searchJobs", "addV", "scanV"}
	case "bulk":
		kinds = []string{"bulk", "bulk", "addV", "delV", "getV", "scanV", "scanE"}
	}
	kind := kinds[c.rng.Intn(len(kinds))]
	switch kind {
	case "addV":
		id, v := c.pickV(hot), c.val()
		label := []string{"P", "Q"}[c.rng.Intn(2)]
		o := &c17Op{Kind: kind, Effects: []c17Effect{{Key: "v:" + id, Val: v, Label: label}}, Private: !hot}
		c.record(o, func() error {
			_, err := c.ls.E.AddVertex(ctx, &gripql.GraphElement{Graph: g, Vertex: vertexOf(id, label, v)})
			return err
		})
		if !hot {
			if !o.OK {
				c.violate("private-write-refused:addV", fmt.Sprintf("client %d: AddVertex(%s) on a private id failed: %s", c.id, id, o.Err), o)
			}
			c.applyPriv(o.Effects)
		}
	case "addE":
		e, v := c.pickE(hot), c.val()
		o := &c17Op{Kind: kind, Effects: []c17Effect{{Key: "e:" + e.ID, Val: v, Label: e.Label}}, Private: !hot}
		c.record(o, func() error {
			_, err := c.ls.E.AddEdge(ctx, &gripql.GraphElement{Graph: g, Edge: &gripql.Edge{Gid: e.ID, From: e.From, To: e.To, Label: e.Label, Data: gq.Struct(M{"val": v})}})
			return err
		})
		if !hot {
			if !o.OK {
				c.violate("private-write-refused:addE", fmt.Sprintf("client %d: AddEdge(%s) on a private id failed: %s", c.id, e.ID, o.Err), o)
			}
			c.applyPriv(o.Effects)
		}
	case "delV":
		id := c.pickV(hot)
		o := &c17Op{Kind: kind, Effects: append([]c17Effect{{Key: "v:" + id, Del: true}}, c.w.cascade(id)...), Private: !hot}
		if !hot && c.priv["v:"+id] == "" {
			// deleting a vertex that does not exist changes nothing (edges to an absent vertex stay)
			o.Effects = nil
		}
		c.record(o, func() error {
			_, err := c.ls.E.DeleteVertex(ctx, &gripql.ElementID{Graph: g, Id: id})
			return err
		})
		if !hot {
			if len(o.Effects) > 0 && !o.OK {
				c.violate("private-write-refused:delV", fmt.Sprintf("client %d: DeleteVertex(%s) of its own existing vertex failed: %s", c.id, id, o.Err), o)
			}
			c.applyPriv(o.Effects)
		}
	case "delE":
		e := c.pickE(hot)
		o := &c17Op{Kind: kind, Effects: []c17Effect{{Key: "e:" + e.ID, Del: true}}, Private: !hot}
		c.record(o, func() error {
			_, err := c.ls.E.DeleteEdge(ctx, &gripql.ElementID{Graph: g, Id: e.ID})
			return err
		})
		if !hot {
			c.applyPriv(o.Effects)
		}
	case "getV":
		id := c.pickV(hot)
		o := &c17Op{Kind: kind, ReadKey: "v:" + id, Private: !hot}
		c.record(o, func() error {
			v, err := c.ls.Q.GetVertex(ctx, &gripql.ElementID{Graph: g, Id: id})
			if err == nil {
				o.Found, o.Val = true, valOf(v.Data.AsMap())
				if v.Gid != id {
					o.Val = "wrong-id:" + v.Gid
				}
			}
			return nil
		})
		c.checkPrivRead(o)
	case "getE":
		e := c.pickE(hot)
		o := &c17Op{Kind: kind, ReadKey: "e:" + e.ID, Private: !hot}
		c.record(o, func() error {
			r, err := c.ls.Q.GetEdge(ctx, &gripql.ElementID{Graph: g, Id: e.ID})
			if err == nil {
				o.Found, o.Val = true, valOf(r.Data.AsMap())
				if r.Gid != e.ID || r.From != e.From || r.To != e.To || r.Label != e.Label {
					o.Val = fmt.Sprintf("wrong-edge:%s %s->%s %s", r.Gid, r.From, r.To, r.Label)
				}
			}
			return nil
		})
		c.checkPrivRead(o)
	case "scanV", "scanE", "adj", "distinct2":
		var q *gripql.Query
		switch kind {
		case "scanV":
			q = []*gripql.Query{gripql.V(), gripql.V().HasLabel("P"), gripql.V().HasLabel("Q")}[c.rng.Intn(3)]
		case "scanE":
			q = []*gripql.Query{gripql.E(), gripql.V().OutE(), gripql.V().InE("r")}[c.rng.Intn(3)]
		case "adj":
			q = []*gripql.Query{gripql.V(c.pickV(hot)).Out(), gripql.V(c.pickV(hot)).In(), gripql.V().Both()}[c.rng.Intn(3)]
		case "distinct2":
			// two distinct() steps: two temporary stores asked of one manager by two goroutines
			q = gripql.V().Distinct("_gid").Both().Distinct("_gid")
		}
		o := &c17Op{Kind: kind}
		c.record(o, func() error {
			st, err := c.ls.Q.Traversal(ctx, &gripql.GraphQuery{Graph: g, Query: q.Statements})
			if err != nil {
				return err
			}
			for {
				r, err := st.Recv()
				if err == io.EOF {
					return nil
				}
				if err != nil {
					return err
				}
				if v := r.GetVertex(); v != nil {
					o.Rows = append(o.Rows, [2]string{"v:" + v.Gid, valOf(v.Data.AsMap())})
				} else if e := r.GetEdge(); e != nil {
					o.Rows = append(o.Rows, [2]string{"e:" + e.Gid, valOf(e.Data.AsMap())})
				}
			}
		})
		if !o.OK {
			c.violate("read-failed:"+kind, fmt.Sprintf("client %d: traversal %s failed: %s", c.id, q.String(), o.Err), o)
		}
	case "labels":
		o := &c17Op{Kind: kind}
		c.record(o, func() error {
			r, err := c.ls.Q.ListLabels(ctx, &gripql.GraphID{Graph: g})
			if err == nil {
				for _, l := range append(append([]string{}, r.VertexLabels...), r.EdgeLabels...) {
					if l != "P" && l != "Q" && l != "S" && l != "r" && l != "s" {
						o.Val = "unknown label " + l
					}
				}
			}
			return err
		})
		if !o.OK || o.Val != "" {
			c.violate("labels", fmt.Sprintf("client %d: ListLabels: %s %s", c.id, o.Err, o.Val), o)
		}
	case "bulk":
		var effs []c17Effect
		var elems []*gripql.GraphElement
		seen := map[string]bool{}
		n := 2 + c.rng.Intn(6)
		for i := 0; i < n; i++ {
			h := c.rng.Intn(100) < 50
			if c.rng.Intn(2) == 0 {
				id, v := c.pickV(h), c.val()
				if seen["v:"+id] {
					continue // the same id twice in one stream is a C03/C18 finding, not generated here
				}
				seen["v:"+id] = true
				effs = append(effs, c17Effect{Key: "v:" + id, Val: v, Label: "P"})
				elems = append(elems, &gripql.GraphElement{Graph: g, Vertex: vertexOf(id, "P", v)})
			} else {
				e, v := c.pickE(h), c.val()
				if seen["e:"+e.ID] {
					continue
				}
				seen["e:"+e.ID] = true
				effs = append(effs, c17Effect{Key: "e:" + e.ID, Val: v, Label: e.Label})
				elems = append(elems, &gripql.GraphElement{Graph: g, Edge: &gripql.Edge{Gid: e.ID, From: e.From, To: e.To, Label: e.Label, Data: gq.Struct(M{"val": v})}})
			}
		}
		o := &c17Op{Kind: kind, Effects: effs}
		c.record(o, func() error {
			st, err := c.ls.E.BulkAdd(ctx)
			if err != nil {
				return err
			}
			for _, e := range elems {
				if err := st.Send(e); err != nil {
					return err
				}
			}
			r, err := st.CloseAndRecv()
			if err != nil {
				return err
			}
			if int(r.InsertCount) != len(elems) || r.ErrorCount != 0 {
				return fmt.Errorf("BulkAdd of %d valid elements reported insertCount=%d errorCount=%d", len(elems), r.InsertCount, r.ErrorCount)
			}
			return nil
		})
		if !o.OK {
			c.violate("bulk-refused", fmt.Sprintf("client %d: %s", c.id, o.Err), o)
		}
		c.applyPriv(effs)
	// ---- graphs ----
	case "pgAdd", "pgDel", "pgPut", "pgGet", "hgAdd", "hgDel", "listGraphs":
		pg := fmt.Sprintf("%s_p%d", g, c.id)
		hg := g + "_hot"
		o := &c17Op{Kind: kind}
		switch kind {
		case "pgAdd":
			was := c.pgra
			c.record(o, func() error { _, err := c.ls.E.AddGraph(ctx, &gripql.GraphID{Graph: pg}); return err })
			if !o.OK && !was {
				c.violate("private-graph:AddGraph", fmt.Sprintf("client %d: AddGraph(%s) failed although the client's own history says the graph does not exist: %s", c.id, pg, o.Err), o)
			}
			if !was {
				c.pgra, c.pgval = true, ""
			}
		case "pgDel":
			c.record(o, func() error { _, err := c.ls.E.DeleteGraph(ctx, &gripql.GraphID{Graph: pg}); return err })
			if !o.OK && c.pgra {
				c.violate("private-graph:DeleteGraph", fmt.Sprintf("client %d: DeleteGraph(%s) of its own existing graph failed: %s", c.id, pg, o.Err), o)
			}
			c.pgra, c.pgval = false, ""
		case "pgPut":
			v := c.val()
			c.record(o, func() error {
				_, err := c.ls.E.AddVertex(ctx, &gripql.GraphElement{Graph: pg, Vertex: vertexOf("x", "P", v)})
				return err
			})
			if o.OK != c.pgra {
				c.violate("private-graph:AddVertex", fmt.Sprintf("client %d: AddVertex into %s ok=%v (%s) while the client's own history says exists=%v", c.id, pg, o.OK, o.Err, c.pgra), o)
			}
			if o.OK {
				c.pgval = v
			}
		case "pgGet":
			c.record(o, func() error {
				v, err := c.ls.Q.GetVertex(ctx, &gripql.ElementID{Graph: pg, Id: "x"})
				if err == nil {
					o.Found, o.Val = true, valOf(v.Data.AsMap())
				}
				return nil
			})
			want := ""
			if c.pgra {
				want = c.pgval
			}
			if o.Val != want {
				c.violate("private-graph:GetVertex", fmt.Sprintf("client %d: GetVertex(x) in its own graph %s returned %q, own history says %q (graph exists=%v)", c.id, pg, o.Val, want, c.pgra), o)
			}
		case "hgAdd":
			c.record(o, func() error { _, err := c.ls.E.AddGraph(ctx, &gripql.GraphID{Graph: hg}); return err })
		case "hgDel":
			c.record(o, func() error { _, err := c.ls.E.DeleteGraph(ctx, &gripql.GraphID{Graph: hg}); return err })
		case "listGraphs":
			c.record(o, func() error {
				r, err := c.ls.Q.ListGraphs(ctx, &gripql.Empty{})
				if err != nil {
					return err
				}
				has := false
				for _, n := range r.Graphs {
					if n == pg {
						has = true
					}
				}
				if has != c.pgra {
					o.Val = fmt.Sprintf("own graph listed=%v, own history says exists=%v", has, c.pgra)
				}
				return nil
			})
			if !o.OK || o.Val != "" {
				c.violate("private-graph:ListGraphs", fmt.Sprintf("client %d: ListGraphs: %s %s", c.id, o.Err, o.Val), o)
			}
		}
	// ---- schema ----
	case "schAdd", "schGet", "pschAdd", "pschGet":
		target := g
		if strings.HasPrefix(kind, "psch") {
			target = fmt.Sprintf("%s_s%d", g, c.id)
		}
		if strings.HasSuffix(kind, "Add") {
			v := c.val()
			o := &c17Op{Kind: kind, Effects: []c17Effect{{Key: "schema:" + target, Val: v}}}
			c.record(o, func() error {
				_, err := c.ls.E.AddSchema(ctx, &gripql.Graph{Graph: target, Vertices: []*gripql.Vertex{vertexOf("S"+v, "S", v)}}) // every upload has its own vertex: a stored mix of two uploads shows two vertices
				return err
			})
			if target != g {
				if !o.OK {
					c.violate("schema:AddSchema", fmt.Sprintf("client %d: AddSchema(%s) on a graph only it uses failed: %s", c.id, target, o.Err), o)
				}
				c.psch = v
			}
		} else {
			o := &c17Op{Kind: kind, ReadKey: "schema:" + target}
			c.record(o, func() error {
				s, err := c.ls.Q.GetSchema(ctx, &gripql.GraphID{Graph: target})
				if err == nil {
					o.Found = true
					o.Val = "no-marker"
					if len(s.Vertices) == 1 && len(s.Edges) == 0 {
						o.Val = valOf(s.Vertices[0].Data.AsMap())
					}
				}
				return nil
			})
			if target != g && o.Val != c.psch {
				c.violate("schema:private", fmt.Sprintf("client %d: GetSchema(%s) returned marker %q, the client's last AddSchema wrote %q", c.id, target, o.Val, c.psch), o)
			}
		}
	// ---- jobs ----
	case "submit":
		o := &c17Op{Kind: kind}
		c.record(o, func() error {
			j, err := c.ls.J.Submit(ctx, &gripql.GraphQuery{Graph: g, Query: gripql.V().HasLabel("S").Statements})
			if err == nil {
				c.jobs = append(c.jobs, j)
				o.Val = j.Id
			}
			return err
		})
		if !o.OK {
			c.violate("jobs:Submit", fmt.Sprintf("client %d: Submit failed: %s", c.id, o.Err), o)
		}
	case "getJob", "viewJob", "delJob":
		if len(c.jobs) == 0 {
			return
		}
		i := c.rng.Intn(len(c.jobs))
		j := c.jobs[i]
		o := &c17Op{Kind: kind, Val: j.Id}
		switch kind {
		case "getJob":
			c.record(o, func() error {
				st, err := c.ls.J.GetJob(ctx, j)
				if err != nil {
					return err
				}
				if st.Id != j.Id || st.Graph != g || st.Count > 5 || (st.State == gripql.JobState_COMPLETE && st.Count != 5) {
					return fmt.Errorf("status %v of job %s (a query with 5 results)", st, j.Id)
				}
				return nil
			})
		case "viewJob":
			c.record(o, func() error {
				st, err := c.ls.J.GetJob(ctx, j)
				if err != nil {
					return err
				}
				if st.State != gripql.JobState_COMPLETE {
					return nil
				}
				vs, err := c.ls.J.ViewJob(ctx, j)
				if err != nil {
					return err
				}
				rows, err := streamRows(vs.Recv)
				if err != nil {
					return err
				}
				if len(rows) != 5 {
					return fmt.Errorf("completed job %s shows %d rows, the query has 5", j.Id, len(rows))
				}
				return nil
			})
		case "delJob":
			c.record(o, func() error {
				if st, err := c.ls.J.GetJob(ctx, j); err != nil || st.State != gripql.JobState_COMPLETE {
					return err // a running job cannot be deleted (cancel is not implemented)
				}
				_, err := c.ls.J.DeleteJob(ctx, j)
				if err != nil {
					return err
				}
				c.jobs = append(c.jobs[:i], c.jobs[i+1:]...)
				if _, err := c.ls.J.GetJob(ctx, j); err == nil {
					return fmt.Errorf("job %s still answers after DeleteJob", j.Id)
				}
				return nil
			})
		}
		if !o.OK {
			c.violate("jobs:"+kind, fmt.Sprintf("client %d: %s: %s", c.id, kind, o.Err), o)
		}
	case "listJobs", "searchJobs":
		o := &c17Op{Kind: kind}
		c.record(o, func() error {
			seen := map[string]bool{}
			if kind == "listJobs" {
				st, err := c.ls.J.ListJobs(ctx, &gripql.GraphID{Graph: g})
				if err != nil {
					return err
				}
				for {
					j, err := st.Recv()
					if err == io.EOF {
						break
					}
					if err != nil {
						return err
					}
					if j.Graph != g {
						return fmt.Errorf("ListJobs(%s) listed a job of graph %s", g, j.Graph)
					}
					seen[j.Id] = true
					o.Rows = append(o.Rows, [2]string{"job", j.Id})
				}
			} else {
				st, err := c.ls.J.SearchJobs(ctx, &gripql.GraphQuery{Graph: g, Query: gripql.V().HasLabel("S").Statements})
				if err != nil {
					return err
				}
				for {
					j, err := st.Recv()
					if err == io.EOF {
						break
					}
					if err != nil {
						return err
					}
					if j.Graph != g || j.Count > 5 {
						return fmt.Errorf("SearchJobs(%s) returned %v", g, j)
					}
					o.Rows = append(o.Rows, [2]string{"job", j.Id})
				}
				return nil
			}
			for _, j := range c.jobs {
				if !seen[j.Id] {
					return fmt.Errorf("ListJobs does not list the client's own job %s", j.Id)
				}
			}
			return nil
		})
		if !o.OK {
			c.violate("jobs:"+kind, fmt.Sprintf("client %d: %s: %s", c.id, kind, o.Err), o)
		}
	}
}

func (c *c17Client) checkPrivRead(o *c17Op) {
	if !o.Private {
		return
	}
	want := c.priv[o.ReadKey]
	got := ""
	if o.Found {
		got = o.Val
	}
	if got != want {
		c.violate("private-read:"+o.Kind, fmt.Sprintf("client %d read %s = %q; it is the only writer of that id and its own history says %q", c.id, o.ReadKey, got, want), o)
	}
}

// ---------------------------------------------------------------------------
// the session case

type c17Env struct {
	ls *gq.LiveServer
	n  int
}

func c17Setup(w *fw.Worker) *c17Env {
	return w.State("c17", func() interface{} {
		ls, err := gq.StartServer(w.NewDir("c17srv"), gq.ServerOpts{})
		if err != nil {
			panic(err)
		}
		return &c17Env{ls: ls}
	}).(*c17Env)
}

func c17Session(w *fw.Worker, c fw.Case, cc c17Case) fw.Result {
	env := c17Setup(w)
	if cc.Procs > 0 {
		defer runtime.GOMAXPROCS(runtime.GOMAXPROCS(cc.Procs))
	}
	ctx := context.Background()
	env.n++
	g := fmt.Sprintf("c17g%d_%d", c.ID, env.n)
	if _, err := env.ls.E.AddGraph(ctx, &gripql.GraphID{Graph: g}); err != nil {
		return fw.InconclusiveR("AddGraph: " + err.Error())
	}
	for i := 0; i < 5; i++ {
		if _, err := env.ls.E.AddVertex(ctx, &gripql.GraphElement{Graph: g, Vertex: vertexOf(fmt.Sprintf("s%d", i), "S", "static")}); err != nil {
			return fw.InconclusiveR("populate: " + err.Error())
		}
	}
	world := c17MkWorld(g, cc.Clients)
	hist := &c17Hist{}
	var fail atomic.Value
	clients := make([]*c17Client, cc.Clients)
	var wg sync.WaitGroup
	start := make(chan struct{})
	for i := range clients {
		cl := &c17Client{id: i, ls: env.ls, w: world, h: hist, rng: rand.New(rand.NewSource(cc.Seed*977 + int64(i)*31 + int64(len(cc.Profile)))), prof: cc.Profile, priv: map[string]string{}, fail: &fail}
		for _, v := range world.privV[i] {
			cl.priv["v:"+v] = ""
		}
		for _, e := range world.privE[i] {
			cl.priv["e:"+e.ID] = ""
		}
		if cc.Profile == "schema" {
			// the private graph of the schema profile exists from the start
			if _, err := env.ls.E.AddGraph(ctx, &gripql.GraphID{Graph: fmt.Sprintf("%s_s%d", g, i)}); err != nil {
				return fw.InconclusiveR("AddGraph: " + err.Error())
			}
		}
		clients[i] = cl
		wg.Add(1)
		go func() {
			defer wg.Done()
			<-start
			for n := 0; n < cc.Ops; n++ {
				cl.step()
			}
		}()
	}
	close(start)
	wg.Wait()
	res := fw.HeldR(true, "")
	res.Count("client_calls", int64(len(hist.ops)))
	res.AddSet("profiles", cc.Profile)
	kinds := map[string]bool{}
	overlaps := 0
	errs := 0
	sort.Slice(hist.ops, func(i, j int) bool { return hist.ops[i].Call < hist.ops[j].Call })
	maxRet := int64(0)
	for _, o := range hist.ops {
		kinds[o.Kind] = true
		if o.Call < maxRet {
			overlaps++ // this call started before an earlier one had returned
		}
		if o.Ret > maxRet {
			maxRet = o.Ret
		}
		if !o.OK {
			errs++
		}
	}
	res.AddSet("op_kinds", keysOf(kinds)...)
	res.Count("overlapping_calls", int64(overlaps))
	res.Count("refused_calls", int64(errs))
	if f := fail.Load(); f != nil {
		return *(f.(*fw.Result))
	}
	if overlaps == 0 && cc.Clients > 1 {
		res.Nontrivial = false
	}

	// ---- final state ----
	gi, err := env.ls.DB.Graph(g)
	if err != nil {
		return fw.ViolatedR("final:graph-missing", fmt.Sprintf("graph %s cannot be opened after the sessions: %v", g, err), nil)
	}
	snap := gq.SnapshotGraph(gi, model.Universe{})
	if inv := snap.Invariants(g); len(inv) > 0 {
		return fw.ViolatedR("final:invariant", fmt.Sprintf("%s after %d concurrent %s sessions: %s", g, cc.Clients, cc.Profile, strings.Join(inv, "; ")), map[string]interface{}{"invariants": inv, "history": c17Trim(hist.ops)})
	}
	final := map[string]string{}
	for id, v := range snap.V {
		if v.Label == "S" {
			if valOf(v.Data) != "static" {
				return fw.ViolatedR("final:static-changed", fmt.Sprintf("static vertex %s changed: %v", id, v.Data), nil)
			}
			continue
		}
		final["v:"+id] = valOf(v.Data)
	}
	nStatic := 0
	for _, v := range snap.V {
		if v.Label == "S" {
			nStatic++
		}
	}
	if nStatic != 5 {
		return fw.ViolatedR("final:static-lost", fmt.Sprintf("%d of the 5 vertices no client touched are left", nStatic), nil)
	}
	for id, e := range snap.E {
		d, ok := world.edgeBy[id]
		if !ok || e.From != d.From || e.To != d.To || e.Label != d.Label {
			return fw.ViolatedR("final:foreign-edge", fmt.Sprintf("edge %s %s->%s (%s) was never written", id, e.From, e.To, e.Label), nil)
		}
		final["e:"+id] = valOf(e.Data)
	}
	// private keys: exactly the client's own history
	for _, cl := range clients {
		for k, want := range cl.priv {
			if final[k] != want {
				return fw.ViolatedR("final:private", fmt.Sprintf("%s is %q after the sessions; client %d is its only writer and its history ends with %q", k, final[k], cl.id, want),
					map[string]interface{}{"history": c17Trim(c17Filter(hist.ops, k))})
			}
		}
	}
	// reads: only values somebody wrote, written before the read returned
	writes := map[string][]*c17Op{}
	for _, o := range hist.ops {
		for _, e := range o.Effects {
			writes[e.Key] = append(writes[e.Key], o)
		}
	}
	wrote := func(key, val string, before int64) bool {
		for _, o := range writes[key] {
			if o.Call > before {
				continue
			}
			for _, e := range o.Effects {
				if e.Key == key && !e.Del && e.Val == val {
					return true
				}
			}
		}
		return false
	}
	nReads := 0
	for _, o := range hist.ops {
		if o.ReadKey != "" && o.Found {
			nReads++
			if !wrote(o.ReadKey, o.Val, o.Ret) {
				return fw.ViolatedR("read:unwritten:"+o.Kind, fmt.Sprintf("client %d read %s = %q, which no client had written when the call returned", o.Client, o.ReadKey, o.Val), map[string]interface{}{"read": o, "history": c17Trim(c17Filter(hist.ops, o.ReadKey))})
			}
		}
		for _, r := range o.Rows {
			if r[0] == "job" {
				continue
			}
			if strings.HasPrefix(r[0], "v:s") && r[1] == "static" {
				continue
			}
			nReads++
			if !wrote(r[0], r[1], o.Ret) {
				return fw.ViolatedR("read:unwritten:"+o.Kind, fmt.Sprintf("client %d: a traversal returned %s = %q, which no client had written when the call returned", o.Client, r[0], r[1]), map[string]interface{}{"read": o, "history": c17Trim(c17Filter(hist.ops, r[0]))})
			}
		}
	}
	res.Count("reads_checked", int64(nReads))
	// hot keys: an order of the acknowledged edits that respects program order must explain the final state
	hotKeys := []string{}
	for _, v := range world.hotV {
		hotKeys = append(hotKeys, "v:"+v)
	}
	for _, e := range world.hotE {
		hotKeys = append(hotKeys, "e:"+e.ID)
	}
	if cc.Profile == "schema" {
		s, err := env.ls.Q.GetSchema(ctx, &gripql.GraphID{Graph: g})
		if err == nil && len(s.Vertices) == 1 {
			final["schema:"+g] = valOf(s.Vertices[0].Data.AsMap())
		} else if err == nil {
			final["schema:"+g] = "no-marker"
		}
		hotKeys = append(hotKeys, "schema:"+g)
		// what is stored (and loaded after a restart) must be one upload, the one the server answers with
		targets := []string{g}
		for _, cl := range clients {
			targets = append(targets, fmt.Sprintf("%s_s%d", g, cl.id))
		}
		for _, tgt := range targets {
			cached := ""
			if s, err := env.ls.Q.GetSchema(ctx, &gripql.GraphID{Graph: tgt}); err == nil && len(s.Vertices) == 1 {
				cached = valOf(s.Vertices[0].Data.AsMap())
			}
			sgi, err := env.ls.DB.Graph(tgt + "__schema__")
			if err != nil {
				if cached != "" {
					return fw.ViolatedR("schema:stored", fmt.Sprintf("the server answers GetSchema(%s) with upload %q but no schema graph is stored: %v", tgt, cached, err), nil)
				}
				continue
			}
			ss := gq.SnapshotGraph(sgi, model.Universe{})
			var stored []string
			for _, v := range ss.V {
				stored = append(stored, v.ID+"="+valOf(v.Data))
			}
			sort.Strings(stored)
			if len(stored) != 1 || stored[0] != "S"+cached+"="+cached || len(ss.E) != 0 {
				return fw.ViolatedR("schema:stored", fmt.Sprintf("the stored schema of %s is %v; the server answers GetSchema with upload %q", tgt, stored, cached), map[string]interface{}{"history": c17Trim(c17Filter(hist.ops, "schema:"+tgt))})
			}
			res.Count("stored_schemas_checked", 1)
		}
	}
	if msg, det := c17Explain(hist.ops, hotKeys, final); msg != "" {
		return fw.ViolatedR("final:unexplained", fmt.Sprintf("%d %s sessions on %s: %s", cc.Clients, cc.Profile, g, msg), det)
	}
	res.Count("hot_keys_explained", int64(len(hotKeys)))
	// jobs: every surviving job completes with the 5 rows of its query; the list is exactly the surviving jobs
	if cc.Profile == "jobs" {
		want := map[string]bool{}
		for _, cl := range clients {
			for _, j := range cl.jobs {
				want[j.Id] = true
				var st *gripql.JobStatus
				for i := 0; i < 6000; i++ {
					st, err = env.ls.J.GetJob(ctx, j)
					if err != nil || st.State == gripql.JobState_COMPLETE || st.State == gripql.JobState_ERROR {
						break
					}
					time.Sleep(5 * time.Millisecond)
				}
				if err != nil || st.State != gripql.JobState_COMPLETE || st.Count != 5 {
					if err == nil && (st.State == gripql.JobState_RUNNING || st.State == gripql.JobState_QUEUED) {
						return fw.InconclusiveR(fmt.Sprintf("job %s still %s after the polling budget", j.Id, st.State))
					}
					return fw.ViolatedR("jobs:final-status", fmt.Sprintf("job %s of client %d ends as %v (err %v); its query has 5 results", j.Id, cl.id, st, err), nil)
				}
				vs, err := env.ls.J.ViewJob(ctx, j)
				if err != nil {
					return fw.ViolatedR("jobs:final-view", fmt.Sprintf("ViewJob(%s): %v", j.Id, err), nil)
				}
				rows, err := streamRows(vs.Recv)
				if err != nil || len(rows) != 5 {
					return fw.ViolatedR("jobs:final-view", fmt.Sprintf("job %s shows %d rows (err %v); its query has 5 results", j.Id, len(rows), err), rows)
				}
				res.Count("jobs_verified", 1)
			}
		}
		st, err := env.ls.J.ListJobs(ctx, &gripql.GraphID{Graph: g})
		if err != nil {
			return fw.ViolatedR("jobs:final-list", "ListJobs: "+err.Error(), nil)
		}
		got := map[string]bool{}
		for {
			j, err := st.Recv()
			if err != nil {
				break
			}
			got[j.Id] = true
		}
		if fmt.Sprint(keysOf(got)) != fmt.Sprint(keysOf(want)) && errs == 0 {
			return fw.ViolatedR("jobs:final-list", fmt.Sprintf("ListJobs after the sessions: %v, surviving jobs of the clients: %v", keysOf(got), keysOf(want)), nil)
		}
	}
	if cc.Profile == "graphs" {
		r, err := env.ls.Q.ListGraphs(ctx, &gripql.Empty{})
		if err != nil {
			return fw.ViolatedR("graphs:final-list", "ListGraphs: "+err.Error(), nil)
		}
		listed := map[string]bool{}
		for _, n := range r.Graphs {
			listed[n] = true
		}
		for _, cl := range clients {
			pg := fmt.Sprintf("%s_p%d", g, cl.id)
			if listed[pg] != cl.pgra {
				return fw.ViolatedR("graphs:final-list", fmt.Sprintf("graph %s listed=%v after the sessions; its only user's history ends with exists=%v", pg, listed[pg], cl.pgra), nil)
			}
			if cl.pgra {
				pgi, err := env.ls.DB.Graph(pg)
				if err != nil {
					return fw.ViolatedR("graphs:final-open", fmt.Sprintf("graph %s: %v", pg, err), nil)
				}
				ps := gq.SnapshotGraph(pgi, model.Universe{})
				got := ""
				if v, ok := ps.V["x"]; ok {
					got = valOf(v.Data)
				}
				if got != cl.pgval || len(ps.V) > 1 || len(ps.E) > 0 {
					return fw.ViolatedR("graphs:final-content", fmt.Sprintf("graph %s holds x=%q and %d vertices; its only user's history ends with x=%q", pg, got, len(ps.V), cl.pgval), nil)
				}
			}
		}
		// the contested graph: either state is explained by some order, unless nobody ever created it
		hg := g + "_hot"
		created := false
		for _, o := range hist.ops {
			if o.Kind == "hgAdd" {
				created = true
			}
		}
		if listed[hg] && !created {
			return fw.ViolatedR("graphs:final-list", "the contested graph exists although no client created it", nil)
		}
		if listed[hg] {
			if hgi, err := env.ls.DB.Graph(hg); err == nil {
				hs := gq.SnapshotGraph(hgi, model.Universe{})
				if len(hs.V)+len(hs.E) > 0 {
					return fw.ViolatedR("graphs:final-content", fmt.Sprintf("the contested graph holds %d elements nobody wrote", len(hs.V)+len(hs.E)), nil)
				}
			}
		}
	}
	return res
}

func c17Filter(ops []*c17Op, key string) []*c17Op {
	var out []*c17Op
	for _, o := range ops {
		if o.ReadKey == key {
			out = append(out, o)
			continue
		}
		for _, e := range o.Effects {
			if e.Key == key {
				out = append(out, o)
				break
			}
		}
	}
	return out
}

func c17Trim(ops []*c17Op) []*c17Op {
	if len(ops) > 120 {
		return ops[len(ops)-120:]
	}
	return ops
}

// c17Explain looks for an order of the write ops that respects every client's
// program order and ends in the observed final values of the hot keys.
// Definite constraints: program order; for a key that ends with value v, every
// other acknowledged op touching the key precedes the op that wrote v. A key
// that ends absent needs one deleting op that all acknowledged writers of the
// key can precede (each candidate is tried against the definite constraints
// only: permissive, never stricter than the property).
func c17Explain(ops []*c17Op, keys []string, final map[string]string) (string, interface{}) {
	var wops []*c17Op
	idx := map[*c17Op]int{}
	for _, o := range ops {
		if len(o.Effects) > 0 {
			idx[o] = len(wops)
			wops = append(wops, o)
		}
	}
	n := len(wops)
	adj := make([][]int, n)
	last := map[int]*c17Op{}
	byClient := map[int][]*c17Op{}
	for _, o := range wops {
		byClient[o.Client] = append(byClient[o.Client], o)
	}
	for c, l := range byClient {
		sort.Slice(l, func(i, j int) bool { return l[i].Call < l[j].Call })
		for i := 1; i < len(l); i++ {
			adj[idx[l[i-1]]] = append(adj[idx[l[i-1]]], idx[l[i]])
		}
		_ = c
	}
	_ = last
	touch := func(key string) (all []*c17Op) {
		for _, o := range wops {
			for _, e := range o.Effects {
				if e.Key == key {
					all = append(all, o)
					break
				}
			}
		}
		return
	}
	var absent []string
	for _, key := range keys {
		v, present := final[key]
		all := touch(key)
		if present {
			var winner *c17Op
			for _, o := range all {
				for _, e := range o.Effects {
					if e.Key == key && !e.Del && e.Val == v {
						winner = o
					}
				}
			}
			if winner == nil {
				return fmt.Sprintf("%s ends as %q, which no client wrote", key, v), map[string]interface{}{"history": c17Trim(all)}
			}
			for _, o := range all {
				if o != winner && o.OK {
					adj[idx[o]] = append(adj[idx[o]], idx[winner])
				}
			}
		} else {
			absent = append(absent, key)
		}
	}
	if cyc := c17Cycle(adj); cyc {
		return "no order of the acknowledged edits that respects every client's program order ends in the final values of the hot keys", map[string]interface{}{"final": final, "history": c17Trim(wops)}
	}
	for _, key := range absent {
		all := touch(key)
		var writers, killers []*c17Op
		for _, o := range all {
			for _, e := range o.Effects {
				if e.Key == key {
					if e.Del {
						killers = append(killers, o)
					} else if o.OK {
						writers = append(writers, o)
					}
				}
			}
		}
		if len(writers) == 0 {
			continue
		}
		ok := false
		for _, k := range killers {
			a2 := make([][]int, n)
			copy(a2, adj)
			for _, wr := range writers {
				if wr != k {
					a2[idx[wr]] = append(append([]int{}, a2[idx[wr]]...), idx[k])
				}
			}
			if !c17Cycle(a2) {
				ok = true
				break
			}
		}
		if !ok {
			return fmt.Sprintf("%s is absent after the sessions although %d acknowledged writes created it and no delete can be ordered after all of them", key, len(writers)), map[string]interface{}{"final": final, "history": c17Trim(all)}
		}
	}
	return "", nil
}

func c17Cycle(adj [][]int) bool {
	n := len(adj)
	indeg := make([]int, n)
	for _, l := range adj {
		for _, t := range l {
			indeg[t]++
		}
	}
	var q []int
	for i, d := range indeg {
		if d == 0 {
			q = append(q, i)
		}
	}
	seen := 0
	for len(q) > 0 {
		x := q[0]
		q = q[1:]
		seen++
		for _, t := range adj[x] {
			indeg[t]--
			if indeg[t] == 0 {
				q = append(q, t)
			}
		}
	}
	return seen != n
}

// ---------------------------------------------------------------------------
// shared helpers that are reachable from the server only through other
// backends or unusual queries, driven directly

func c17TempKV(w *fw.Worker, cc c17Case) fw.Result {
	dir := w.NewDir("c17tmp")
	man := engine.NewManager(dir)
	var wg sync.WaitGroup
	var bad atomic.Value
	for i := 0; i < cc.Clients; i++ {
		wg.Add(1)
		go func(i int) {
			defer wg.Done()
			for n := 0; n < cc.Ops; n++ {
				kv := man.GetTempKV()
				key := []byte(fmt.Sprintf("k%d.%d", i, n))
				if err := kv.Set(key, key); err != nil {
					bad.Store(fmt.Sprintf("Set on a temporary store: %v", err))
					return
				}
				if v, err := kv.Get(key); err != nil || string(v) != string(key) {
					bad.Store(fmt.Sprintf("Get on a temporary store: %q %v", v, err))
					return
				}
			}
		}(i)
	}
	wg.Wait()
	man.Cleanup()
	if b := bad.Load(); b != nil {
		return fw.ViolatedR("tempkv:io", b.(string), nil)
	}
	left, _ := os.ReadDir(dir)
	res := fw.HeldR(true, "")
	res.Count("temp_stores", int64(cc.Clients*cc.Ops))
	if len(left) > 0 {
		return fw.ViolatedR("tempkv:leak", fmt.Sprintf("%d of %d temporary stores asked for concurrently were not cleaned up (their registration was lost)", len(left), cc.Clients*cc.Ops), nil)
	}
	return res
}

func c17StreamBatch(w *fw.Worker, cc c17Case) fw.Result {
	// every valid vertex fails in vertexAdd, every second element is invalid:
	// the loader goroutine and the validating loop report errors at the same time
	ch := make(chan *gdbi.GraphElement, 10)
	go func() {
		for i := 0; i < cc.Ops; i++ {
			if i%2 == 0 {
				ch <- &gdbi.GraphElement{Graph: "g", Vertex: &gdbi.Vertex{ID: fmt.Sprintf("v%d", i), Label: "P"}}
			} else {
				ch <- &gdbi.GraphElement{Graph: "g", Vertex: &gdbi.Vertex{ID: "", Label: "P"}}
			}
		}
		close(ch)
	}()
	batches := 0
	err := util.StreamBatch(ch, 1, "g", func(v []*gdbi.Vertex) error { batches++; return fmt.Errorf("refused") }, func(e []*gdbi.Edge) error { return nil })
	res := fw.HeldR(true, "")
	res.Count("elements", int64(cc.Ops))
	want := cc.Ops/2 + batches
	got := 0
	if me, ok := err.(*multierror.Error); ok {
		got = len(me.Errors)
	} else if err != nil {
		got = 1
	}
	if got != want {
		return fw.ViolatedR("streambatch:lost-errors", fmt.Sprintf("StreamBatch reported %d errors; %d invalid elements and %d refused batches happened", got, cc.Ops/2, batches), nil)
	}
	return res
}

func c17Exec(w *fw.Worker, c fw.Case) fw.Result {
	var cc c17Case
	c.Decode(&cc)
	t0 := time.Now()
	var r fw.Result
	switch c.Kind {
	case "tempkv":
		r = c17TempKV(w, cc)
	case "streambatch":
		r = c17StreamBatch(w, cc)
	default:
		r = c17Session(w, c, cc)
	}
	r.Count(fmt.Sprintf("wall_ms_%s_%s_k%d", c.Kind, cc.Profile, cc.Clients), time.Since(t0).Milliseconds())
	return r
}

func init() {
	fw.Register(&fw.Property{
		ID:                "C17",
		Race:              true,
		ScheduleDependent: true,
		WorkerProcs:       -1,
		Rule:              "client sessions against one live GripServer (Badger, jobs on) over loopback gRPC in a -race worker: 9 profiles (mixed, hot ids only, disjoint ids only, graph create/delete/list, schema upload/read, job submit/poll/list/view/delete/search, bulk streams, traversals with two distinct() steps, relabelling of the shared vertices) x K in {2,4,8,32} clients x 3 / 20 seeded repetitions, GOMAXPROCS in {1,2,4,16}; 40 calls per client (10 for K=32, 3 in the distinct() profile) drawn from AddVertex, AddEdge, DeleteVertex (cascading), DeleteEdge, GetVertex, GetEdge, seven traversals incl. one with two distinct() steps, ListLabels, BulkAdd, AddGraph, DeleteGraph, ListGraphs, AddSchema, GetSchema, Submit, GetJob, ListJobs, ViewJob, DeleteJob, SearchJobs; every written value is unique (client.counter); 3 hot vertex ids and 4 hot edge ids shared by all clients, 3+3 private ids per client. Plus engine manager.GetTempKV and util.StreamBatch driven directly from concurrent goroutines. Non-trivial = at least one call started before an earlier call had returned; distinct = distinct (profile, K, seed).",
		Assumptions: []string{
			"oracles: race-detector reports (keyed by the racing function pair, every key must be listed); the worker must survive; ids with one writer behave sequentially (every read and the final value equal that client's own history); values read on shared ids were written by some client before the read returned; the final values of the shared ids must be explained by an order of the acknowledged edits that respects each client's program order (constraint graph over write operations, acyclicity; a shared id that ends absent needs one delete that all acknowledged writers can precede, candidates tried one at a time against the definite constraints - permissive); index/data invariants I0-I3 of the stored graph at quiescence; jobs end COMPLETE with the 5 rows of their query",
			"a call that returns an error counts as 'may have taken effect' (it constrains nothing and may explain a final value); refused calls are counted in the evidence",
			"the same id twice in one BulkAdd stream is the recorded C03/C18 finding and is not generated",
			"interleavings are sampled (scheduler, GOMAXPROCS, client count), not enumerated; the evidence reports how many calls overlapped",
		},
		BatchSize:   8,
		CaseTimeout: 180 * time.Second,
		Gen:         c17Gen,
		Exec:        c17Exec,
		Sample: func(c fw.Case, r fw.Result) interface{} {
			var cc c17Case
			c.Decode(&cc)
			return map[string]interface{}{"kind": c.Kind, "case": cc, "verdict": r.Status, "counters": r.Counters}
		},
	})
}
