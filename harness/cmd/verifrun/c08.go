package main

import (
	"context"
	"encoding/json"
	"fmt"
	"google.golang.org/protobuf/proto"
	"google.golang.org/protobuf/types/known/structpb"
	"math/rand"
	"reflect"
	"sort"
	"strings"

	"github.com/bmeg/grip/engine/logic"
	"github.com/bmeg/grip/gdbi"
	"github.com/bmeg/grip/gripql"
	"google.golang.org/protobuf/encoding/protojson"

	"verifharness/fw"
	"verifharness/gq"
	"verifharness/model"
)

// C08 – has() conditions mean what the documentation says, for every value.

type elemVal struct {
	Name    string
	Missing bool
	V       interface{}
}

func l(v ...interface{}) []interface{} { return v }

var c08Elems = []elemVal{
	{"missing", true, nil},
	{"null", false, nil},
	{"true", false, true},
	{"false", false, false},
	{"0", false, 0.0},
	{"-0", false, negZero()},
	{"1", false, 1.0},
	{"-1", false, -1.0},
	{"1.5", false, 1.5},
	{"1e308", false, 1e308},
	{"-1e308", false, -1e308},
	{"empty-text", false, ""},
	{"text-a", false, "a"},
	{"numtext-1", false, "1"},
	{"numtext-1.5", false, "1.5"},
	{"numtext--1", false, "-1"},
	{"text-abc", false, "abc"},
	{"list-empty", false, l()},
	{"list-1", false, l(1.0)},
	{"list-a", false, l("a")},
	{"list-mixed", false, l(1.0, "a", nil)},
	{"map-empty", false, map[string]interface{}{}},
	{"map-k1", false, map[string]interface{}{"k": 1.0}},
	{"nested", false, map[string]interface{}{"k": l(map[string]interface{}{"z": l(1.0)})}},
}

func negZero() float64 { z := 0.0; return -z }

func kindOf(v interface{}, missing bool) string {
	if missing {
		return "missing"
	}
	switch x := v.(type) {
	case nil:
		return "null"
	case bool:
		return "bool"
	case float64:
		return "number"
	case string:
		if _, ok := model.Num(x); ok {
			return "numtext"
		}
		return "text"
	case []interface{}:
		return "list"
	case map[string]interface{}:
		return "map"
	}
	return "?"
}

var c08Ops = []string{"EQ", "NEQ", "GT", "GTE", "LT", "LTE", "INSIDE", "OUTSIDE", "BETWEEN", "WITHIN", "WITHOUT", "CONTAINS"}

func c08Args() []interface{} {
	nums := []interface{}{-1e308, -1.0, 0.0, 1.0, 1.5, 1e308}
	args := []interface{}{nil, true, false, 0.0, negZero(), 1.0, -1.0, 1.5, 2.0, 1e308, -1e308, "", "a", "1", "1.5", "abc",
		l(), l(1.0), l("a"), l(1.0, "a", nil), l(nil), l(true), l(l(1.0)), l("1"), map[string]interface{}{}, map[string]interface{}{"k": 1.0}}
	// [lo,hi] pairs over boundary numbers, including reversed and equal bounds
	for _, lo := range nums {
		for _, hi := range nums {
			args = append(args, l(lo, hi))
		}
	}
	// numeric-text bounds, arity 1/3, non-numeric bounds
	args = append(args, l("0", "1.5"), l(0.0, "2"), l(0.0), l(0.0, 1.0, 2.0), l("a", "b"), l(nil, 1.0), l(0.0, nil), l(true, false), l(0.0, "x"))
	return args
}

type c08Cond struct {
	Op  string          `json:"op"`
	Arg json.RawMessage `json:"arg"`
}

type c08Bool struct {
	Expr   json.RawMessage `json:"expr"`
	Engine bool            `json:"engine"`
}

func cond(op string, key string, arg interface{}) *gripql.HasExpression {
	return &gripql.HasExpression{Expression: &gripql.HasExpression_Condition{Condition: &gripql.HasCondition{
		Key: key, Value: gq.Value(arg), Condition: gripql.Condition(gripql.Condition_value[op])}}}
}
func andE(es ...*gripql.HasExpression) *gripql.HasExpression {
	return &gripql.HasExpression{Expression: &gripql.HasExpression_And{And: &gripql.HasExpressionList{Expressions: es}}}
}
func orE(es ...*gripql.HasExpression) *gripql.HasExpression {
	return &gripql.HasExpression{Expression: &gripql.HasExpression_Or{Or: &gripql.HasExpressionList{Expressions: es}}}
}
func notE(e *gripql.HasExpression) *gripql.HasExpression {
	return &gripql.HasExpression{Expression: &gripql.HasExpression_Not{Not: e}}
}

// c08Builder builds the condition through the exported builder functions.
func c08Builder(op, key string, arg interface{}) *gripql.HasExpression {
	switch op {
	case "EQ":
		return gripql.Eq(key, arg)
	case "NEQ":
		return gripql.Neq(key, arg)
	case "GT":
		return gripql.Gt(key, arg)
	case "GTE":
		return gripql.Gte(key, arg)
	case "LT":
		return gripql.Lt(key, arg)
	case "LTE":
		return gripql.Lte(key, arg)
	case "INSIDE":
		return gripql.Inside(key, arg)
	case "OUTSIDE":
		return gripql.Outside(key, arg)
	case "BETWEEN":
		return gripql.Between(key, arg)
	case "CONTAINS":
		return gripql.Contains(key, arg)
	case "WITHIN", "WITHOUT":
		members, ok := arg.([]interface{})
		if !ok {
			return nil
		}
		if op == "WITHIN" {
			return gripql.Within(key, members...)
		}
		return gripql.Without(key, members...)
	}
	return nil
}

func c08Leaves() []*gripql.HasExpression {
	return []*gripql.HasExpression{
		cond("GT", "p", 0.0),
		cond("EQ", "p", "a"),
		cond("WITHIN", "p", l(1.0, "a", nil)),
		cond("CONTAINS", "p", 1.0),
		cond("LT", "p", 1.5),
		cond("NEQ", "p", nil),
	}
}

func c08Trees(depth int, leaves []*gripql.HasExpression) []*gripql.HasExpression {
	if depth == 0 {
		return leaves
	}
	sub := c08Trees(depth-1, leaves)
	out := append([]*gripql.HasExpression{}, sub...)
	out = append(out, andE(), orE())
	for _, a := range sub {
		out = append(out, notE(a))
	}
	for _, a := range sub {
		for _, b := range sub {
			out = append(out, andE(a, b), orE(a, b))
		}
	}
	return out
}

func c08Gen(g *fw.GenCtx) []fw.Case {
	var cases []fw.Case
	for _, op := range c08Ops {
		for _, a := range c08Args() {
			if (op == "WITHOUT" || op == "WITHIN") && !isListOrNil(a) {
				// membership in a non-list is unspecified by the documentation
				continue
			}
			cases = append(cases, fw.MkCase("cond", c08Cond{Op: op, Arg: fw.J(a)}))
		}
	}
	leaves := c08Leaves()
	d1 := c08Trees(1, leaves)
	all := d1
	rng := rand.New(rand.NewSource(g.Seed))
	d2 := c08Trees(2, leaves)
	if g.Quick() {
		for i := 0; i < 3000; i++ {
			all = append(all, d2[rng.Intn(len(d2))])
		}
	} else {
		all = append(all, d2[len(d1):]...)
		// depth 3, sampled: combine two random depth-2 trees
		for i := 0; i < 50000; i++ {
			a, b := d2[rng.Intn(len(d2))], d2[rng.Intn(len(d2))]
			switch rng.Intn(3) {
			case 0:
				all = append(all, andE(a, b))
			case 1:
				all = append(all, orE(a, b))
			default:
				all = append(all, notE(a))
			}
		}
	}
	for i, e := range all {
		b, _ := protojson.Marshal(e)
		cases = append(cases, fw.MkCase("bool", c08Bool{Expr: b, Engine: i%7 == 0 || i < len(d1)}))
	}
	return cases
}

func isListOrNil(a interface{}) bool {
	if a == nil {
		return true
	}
	_, ok := a.([]interface{})
	return ok
}

type c08Env struct {
	db    gdbi.GraphDB
	graph gdbi.GraphInterface
	trav  []gdbi.Traveler
}

func c08Setup(w *fw.Worker) *c08Env {
	return w.State("c08", func() interface{} {
		db, err := gq.OpenBadger(w.NewDir("c08db"))
		if err != nil {
			panic(err)
		}
		if err := db.AddGraph("g"); err != nil {
			panic(err)
		}
		gi, _ := db.Graph("g")
		env := &c08Env{db: db, graph: gi}
		for i, e := range c08Elems {
			data := map[string]interface{}{"other": float64(i)}
			if !e.Missing {
				data["p"] = e.V
			}
			v := &gdbi.Vertex{ID: fmt.Sprintf("v%02d", i), Label: "L", Data: data, Loaded: true}
			if err := gi.AddVertex([]*gdbi.Vertex{v}); err != nil {
				panic(err)
			}
			env.trav = append(env.trav, (&gdbi.BaseTraveler{}).AddCurrent(v))
		}
		// every value vertex points at one hub: the same element then reaches a has() step once per source
		if err := gi.AddVertex([]*gdbi.Vertex{{ID: "hub", Label: "H", Data: map[string]interface{}{}, Loaded: true}}); err != nil {
			panic(err)
		}
		for i := range c08Elems {
			e := &gdbi.Edge{ID: fmt.Sprintf("e%02d", i), Label: "r", From: fmt.Sprintf("v%02d", i), To: "hub", Data: map[string]interface{}{}, Loaded: true}
			if err := gi.AddEdge([]*gdbi.Edge{e}); err != nil {
				panic(err)
			}
		}
		return env
	}).(*c08Env)
}

func (env *c08Env) engineKept(w *fw.Worker, e *gripql.HasExpression) ([]bool, string) {
	q := gripql.V().HasLabel("L").Has(e)
	rows := gq.Run(context.Background(), env.graph.Compiler(), q.Statements, w.NewDir("work"))
	if rows.CompileErr != "" {
		return nil, rows.CompileErr
	}
	kept := make([]bool, len(c08Elems))
	for _, r := range rows.Rows {
		var i int
		if _, err := fmt.Sscanf(r.GetVertex().GetGid(), "v%02d", &i); err != nil || i >= len(kept) || kept[i] {
			return nil, "unexpected or duplicate row " + gq.Canon(r)
		}
		kept[i] = true
	}
	// the same condition read through a mark, evaluated on ONE element (the hub) reached from every source:
	// V().hasLabel(L).as(s).out().has(e over $s.p).render($s._gid)
	rs, _ := structpb.NewValue("$s._gid")
	stmts := append(gripql.V().HasLabel("L").As("s").Out().Has(rekey(e, "p", "$s.p")).Statements, &gripql.GraphStatement{Statement: &gripql.GraphStatement_Render{Render: rs}})
	rows = gq.Run(context.Background(), env.graph.Compiler(), stmts, w.NewDir("work"))
	if rows.CompileErr != "" {
		return nil, "via mark: " + rows.CompileErr
	}
	viaMark := make([]bool, len(c08Elems))
	for _, r := range rows.Rows {
		var i int
		if _, err := fmt.Sscanf(r.GetRender().GetStringValue(), "v%02d", &i); err != nil || i >= len(viaMark) || viaMark[i] {
			return nil, "via mark: unexpected or duplicate row " + gq.Canon(r)
		}
		viaMark[i] = true
	}
	for i := range kept {
		if kept[i] != viaMark[i] {
			return nil, fmt.Sprintf("V().hasLabel(L).has(e) keeps v%02d=%v but V().hasLabel(L).as(s).out().has(e over $s.p) keeps the row of source v%02d=%v", i, kept[i], i, viaMark[i])
		}
	}
	return kept, ""
}

// rekey returns a copy of e in which every condition on key `from` reads key `to`.
func rekey(e *gripql.HasExpression, from, to string) *gripql.HasExpression {
	c := proto.Clone(e).(*gripql.HasExpression)
	var walk func(x *gripql.HasExpression)
	walk = func(x *gripql.HasExpression) {
		if x == nil {
			return
		}
		switch t := x.Expression.(type) {
		case *gripql.HasExpression_Condition:
			if t.Condition != nil && t.Condition.Key == from {
				t.Condition.Key = to
			}
		case *gripql.HasExpression_And:
			for _, y := range t.And.GetExpressions() {
				walk(y)
			}
		case *gripql.HasExpression_Or:
			for _, y := range t.Or.GetExpressions() {
				walk(y)
			}
		case *gripql.HasExpression_Not:
			walk(t.Not)
		}
	}
	walk(c)
	return c
}

func (env *c08Env) directKept(e *gripql.HasExpression) []bool {
	kept := make([]bool, len(c08Elems))
	for i, t := range env.trav {
		kept[i] = logic.MatchesHasExpression(t, e)
	}
	return kept
}

func modelKept(e *gripql.HasExpression) []bool {
	kept := make([]bool, len(c08Elems))
	for i, el := range c08Elems {
		el := el
		kept[i] = model.EvalHas(e, func(key string) interface{} {
			if key == "p" && !el.Missing {
				return el.V
			}
			return nil
		})
	}
	return kept
}

func diffKept(got, want []bool) []int {
	var d []int
	for i := range want {
		if got[i] != want[i] {
			d = append(d, i)
		}
	}
	return d
}

func c08Exec(w *fw.Worker, c fw.Case) fw.Result {
	env := c08Setup(w)
	switch c.Kind {
	case "cond":
		var cc c08Cond
		c.Decode(&cc)
		var arg interface{}
		json.Unmarshal(cc.Arg, &arg)
		e := cond(cc.Op, "p", arg)
		want := modelKept(e)
		res := fw.HeldR(true, "")
		// the documented Go builders must build exactly this condition
		if b := c08Builder(cc.Op, "p", arg); b != nil {
			bj, _ := protojson.Marshal(b)
			ej, _ := protojson.Marshal(e)
			var bv, ev interface{}
			json.Unmarshal(bj, &bv)
			json.Unmarshal(ej, &ev)
			if !reflect.DeepEqual(bv, ev) {
				return fw.ViolatedR("builder:"+cc.Op, fmt.Sprintf("gripql.%s(p, %s) builds %s, the condition it stands for is %s", strings.Title(strings.ToLower(cc.Op)), string(cc.Arg), bj, ej), cc)
			}
			res.Count("builders_checked", 1)
		}
		res.Count("triples_direct", int64(len(c08Elems)))
		direct := env.directKept(e)
		eng, cerr := env.engineKept(w, e)
		if cerr != "" {
			return fw.ViolatedR("cond:"+cc.Op+":engine-error", "V().has() failed: "+cerr, cc)
		}
		res.Count("triples_engine", int64(len(c08Elems)))
		for bi, got := range [][]bool{direct, eng} {
			if d := diffKept(got, want); len(d) > 0 {
				kinds := map[string]bool{}
				var items []map[string]interface{}
				for _, i := range d {
					kinds[kindOf(c08Elems[i].V, c08Elems[i].Missing)] = true
					items = append(items, map[string]interface{}{"element": c08Elems[i].Name, "engine_keeps": got[i], "documented_keeps": want[i]})
				}
				var ks []string
				for k := range kinds {
					ks = append(ks, k)
				}
				sort.Strings(ks)
				key := fmt.Sprintf("cond:%s:elem=%s:arg=%s", cc.Op, strings.Join(ks, "+"), argKind(arg))
				return fw.ViolatedR(key, fmt.Sprintf("%s(p, %s) keeps the wrong elements at boundary %d (0=MatchesHasExpression, 1=V().has())", cc.Op, cc.Arg, bi),
					map[string]interface{}{"op": cc.Op, "arg": arg, "mismatches": items})
			}
		}
		res.AddSet("ops", cc.Op)
		res.AddSet("arg_kinds", argKind(arg))
		return res
	case "bool":
		var cb c08Bool
		c.Decode(&cb)
		e := &gripql.HasExpression{}
		if err := protojson.Unmarshal(cb.Expr, e); err != nil {
			panic(err)
		}
		want := modelKept(e)
		variants := map[string]*gripql.HasExpression{
			"original":        e,
			"double-negation": notE(notE(e)),
			"de-morgan-dual":  deMorgan(e),
			"reordered":       reorder(e),
		}
		res := fw.HeldR(true, "")
		for name, v := range variants {
			got := env.directKept(v)
			res.Count("bool_evaluations_direct", 1)
			if d := diffKept(got, want); len(d) > 0 {
				return fw.ViolatedR("bool:"+name, fmt.Sprintf("Boolean combination (%s form) keeps a set different from Boolean algebra: %s", name, gripql.HasExpressionString(v)),
					map[string]interface{}{"expr": json.RawMessage(cb.Expr), "variant": name, "first_mismatch": c08Elems[d[0]].Name, "engine_keeps": got[d[0]]})
			}
			if cb.Engine {
				got, cerr := env.engineKept(w, v)
				res.Count("bool_evaluations_engine", 1)
				if cerr != "" {
					return fw.ViolatedR("bool:engine-error", cerr, cb)
				}
				if d := diffKept(got, want); len(d) > 0 {
					return fw.ViolatedR("bool-engine:"+name, fmt.Sprintf("V().has() with Boolean combination (%s form) keeps a set different from Boolean algebra: %s", name, gripql.HasExpressionString(v)),
						map[string]interface{}{"expr": json.RawMessage(cb.Expr), "variant": name, "first_mismatch": c08Elems[d[0]].Name, "engine_keeps": got[d[0]]})
				}
			}
		}
		sig := ""
		for _, k := range want {
			if k {
				sig += "1"
			} else {
				sig += "0"
			}
		}
		res.AddSet("kept_set_signatures", sig)
		return res
	}
	return fw.InconclusiveR("unknown kind " + c.Kind)
}

func argKind(a interface{}) string {
	if lst, ok := a.([]interface{}); ok {
		if len(lst) == 2 {
			_, o1 := model.Num(lst[0])
			_, o2 := model.Num(lst[1])
			if o1 && o2 {
				return "bounds"
			}
			return "list2-nonnumeric"
		}
		return fmt.Sprintf("list%d", len(lst))
	}
	return kindOf(a, false)
}

// deMorgan pushes one negation through the top connective:
// and(a,b) -> not(or(not a, not b)), or(a,b) -> not(and(not a, not b)).
func deMorgan(e *gripql.HasExpression) *gripql.HasExpression {
	switch x := e.Expression.(type) {
	case *gripql.HasExpression_And:
		var subs []*gripql.HasExpression
		for _, s := range x.And.Expressions {
			subs = append(subs, notE(deMorgan(s)))
		}
		return notE(orE(subs...))
	case *gripql.HasExpression_Or:
		var subs []*gripql.HasExpression
		for _, s := range x.Or.Expressions {
			subs = append(subs, notE(deMorgan(s)))
		}
		return notE(andE(subs...))
	case *gripql.HasExpression_Not:
		return notE(deMorgan(x.Not))
	}
	return e
}

func reorder(e *gripql.HasExpression) *gripql.HasExpression {
	rev := func(in []*gripql.HasExpression) []*gripql.HasExpression {
		out := make([]*gripql.HasExpression, len(in))
		for i, s := range in {
			out[len(in)-1-i] = reorder(s)
		}
		return out
	}
	switch x := e.Expression.(type) {
	case *gripql.HasExpression_And:
		return andE(rev(x.And.Expressions)...)
	case *gripql.HasExpression_Or:
		return orE(rev(x.Or.Expressions)...)
	case *gripql.HasExpression_Not:
		return notE(reorder(x.Not))
	}
	return e
}

func init() {
	fw.Register(&fw.Property{
		ID:   "C08",
		Rule: "cond cases: one (operator, argument) pair evaluated against all 24 element values at both boundaries (logic.MatchesHasExpression on a traveler; V().hasLabel(L).has(expr) through the production compiler on a Badger graph holding one vertex per value, and the same expression read through a mark on ONE shared element reached from every value vertex: V().hasLabel(L).as(s).out().has(expr over $s.p)); the exported builder functions (gripql.Eq ... gripql.Within/Without) must build exactly the condition they stand for; bool cases: and/or/not trees over 6 base conditions, each checked against Boolean algebra in its original, double-negated, De-Morgan-dual and operand-reversed forms. distinct = distinct case payloads.",
		Assumptions: []string{
			"a missing property and an explicit null are both read as null (docs are silent; the literal engine does the same)",
			"numeric text is text in the JSON number grammar; exotic spellings accepted by Go's ParseFloat (inf, nan, hex floats, underscores) are unspecified and not generated",
			"within/without with a non-list argument is unspecified and not generated",
			"eq/neq/within/without/contains compare by deep JSON equality (-0 equals 0)",
		},
		BatchSize: 400,
		Gen:       c08Gen,
		Exec:      c08Exec,
	})
}
