package main

import (
	"context"
	"encoding/json"
	"fmt"
	"math/rand"
	"strings"
	"time"

	"github.com/bmeg/grip/engine/pipeline"
	"github.com/bmeg/grip/gdbi"
	"github.com/bmeg/grip/gripql"
	"google.golang.org/protobuf/encoding/protojson"

	"verifharness/fw"
	"verifharness/gq"
	"verifharness/model"
)

// C06 – no request can crash the server.
//
// The sanitizer here is the Go runtime itself: a panic in a pipeline or
// handler goroutine terminates the worker, the driver reads the crash report
// and keys it by panic site. Hangs go through the deadlock certificate, runs
// that stream without bound through the divergence certificate.

type c06Case struct {
	Family string            `json:"family"`
	Via    string            `json:"via"`             // run | rpc
	Graph  string            `json:"graph,omitempty"` // empty | pop
	Stmts  []json.RawMessage `json:"stmts,omitempty"`
	Method string            `json:"method,omitempty"` // Service/Name for generic RPC cases
	Reqs   []string          `json:"reqs,omitempty"`
}

func js(format string, a ...interface{}) json.RawMessage {
	return json.RawMessage(fmt.Sprintf(format, a...))
}

func jv(v interface{}) string {
	b, _ := json.Marshal(v)
	return string(b)
}

var c06Values = []interface{}{nil, true, 1.0, -1.5, "a", "1", l(), l(1.0), l("a"), l(1.0, "a"), l(1.0, 2.0, 3.0), l(l(1.0)), l(nil, nil),
	map[string]interface{}{}, map[string]interface{}{"k": 1.0}, l("a", 1.0), l(map[string]interface{}{"a": 1.0})}

var c06Keys = []string{"_gid", "_label", "p", "n.k", "$undefined.x", "$m.p", "", "$", "$.", "a[", "a[?(", "_data", "l[0]", "l[:]", "..", "$m", "-p", "_from"}

var c06Conds = []string{"UNKNOWN_CONDITION", "EQ", "NEQ", "GT", "GTE", "LT", "LTE", "INSIDE", "OUTSIDE", "BETWEEN", "WITHIN", "WITHOUT", "CONTAINS"}

func condJSON(key string, val interface{}, op string) string {
	return fmt.Sprintf(`{"condition":{"key":%s,"value":%s,"condition":%q}}`, jv(key), jv(val), op)
}

// stepZoo: one representative (or a few) of every statement kind on the wire.
func c06Zoo() []string {
	return []string{
		`{"in":[]}`, `{"out":["r"]}`, `{"both":[]}`, `{"inE":[]}`, `{"outE":[]}`, `{"bothE":["r","s"]}`,
		`{"inNull":[]}`, `{"outNull":["x"]}`, `{"inENull":[]}`, `{"outENull":["x"]}`,
		`{"has":` + condJSON("p", 1.0, "EQ") + `}`, `{"has":` + condJSON("$m.p", 1.0, "GT") + `}`,
		`{"hasLabel":["P"]}`, `{"hasKey":["p"]}`, `{"hasKey":["$m.p"]}`, `{"hasId":["a","e1"]}`,
		`{"limit":1}`, `{"skip":1}`, `{"range":{"start":0,"stop":2}}`, `{"count":""}`,
		`{"distinct":[]}`, `{"distinct":["p","$m._gid"]}`,
		`{"as":"x"}`, `{"select":{"marks":["m"]}}`, `{"select":{"marks":["m","m2"]}}`,
		`{"fields":[]}`, `{"fields":["p"]}`, `{"fields":["-p"]}`,
		`{"render":"p"}`, `{"render":{"a":"_gid","b":["$m.p",1,null]}}`, `{"path":[]}`, `{"unwind":"l"}`, `{"unwind":"$m.l"}`,
		`{"aggregate":{"aggregations":[{"name":"t","term":{"field":"p","size":2}}]}}`,
		`{"aggregate":{"aggregations":[{"name":"c","count":{}}]}}`,
		`{"aggregate":{"aggregations":[{"name":"h","histogram":{"field":"p","interval":1}}]}}`,
		`{"aggregate":{"aggregations":[{"name":"q","percentile":{"field":"p","percents":[50]}}]}}`,
		`{"aggregate":{"aggregations":[{"name":"f","field":{"field":"_data"}}]}}`,
		`{"aggregate":{"aggregations":[{"name":"y","type":{"field":"p"}}]}}`,
		`{"set":{"key":"c","value":0}}`, `{"increment":{"key":"c","value":1}}`, `{"set":{"key":"$m.c","value":"s"}}`, `{"increment":{"key":"$m.p","value":-1}}`,
		`{"v":[]}`, `{"e":["e1"]}`,
	}
}

func q(stmts ...string) []json.RawMessage {
	out := make([]json.RawMessage, len(stmts))
	for i, s := range stmts {
		out[i] = json.RawMessage(s)
	}
	return out
}

func c06Gen(g *fw.GenCtx) []fw.Case {
	var cases []fw.Case
	n := 0
	add := func(family string, stmts []json.RawMessage) {
		// every query goes through compile+run; every third also through the live server
		for _, gr := range []string{"pop", "empty"} {
			cases = append(cases, fw.MkCase("query", c06Case{Family: family, Via: "run", Graph: gr, Stmts: stmts}))
		}
		n++
		if n%3 == 0 || !g.Quick() {
			cases = append(cases, fw.MkCase("query", c06Case{Family: family, Via: "rpc", Graph: "pop", Stmts: stmts}))
		}
	}
	pre := []string{`{"v":[]}`, `{"as":"m"}`, `{"out":[]}`, `{"as":"m2"}`}
	// F1/F3: condition values x operators x keys, right after V() (optimizer path), after marks, on edges
	for _, op := range c06Conds {
		for _, k := range c06Keys {
			for vi, v := range c06Values {
				h := `{"has":` + condJSON(k, v, op) + `}`
				add("cond-first", q(`{"v":[]}`, h))
				if (vi+len(k)+len(op))%4 == 0 || !g.Quick() {
					add("cond-marked", q(append(append([]string{}, pre...), h)...))
					add("cond-edge", q(`{"e":[]}`, h, `{"out":[]}`))
				}
			}
		}
	}
	// F2: has structure
	for _, h := range []string{`{}`, `{"condition":{}}`, `{"and":{}}`, `{"or":{}}`, `{"not":{}}`, `{"not":{"not":{}}}`, `{"and":{"expressions":[{}]}}`,
		`{"or":{"expressions":[{"not":{}},{"and":{}}]}}`, `{"and":{"expressions":[` + condJSON("_gid", l(1.0), "WITHIN") + `]}}`,
		`{"and":{"expressions":[` + condJSON("_label", "P", "EQ") + `,` + condJSON("_gid", 5.0, "WITHIN") + `]}}`} {
		add("has-structure", q(`{"v":[]}`, `{"has":`+h+`}`))
		add("has-structure", q(`{"v":[]}`, `{"has":`+h+`}`, `{"count":""}`))
		add("has-structure", q(`{"e":[]}`, `{"has":`+h+`}`))
	}
	deep := condJSON("p", 1.0, "EQ")
	for i := 0; i < 200; i++ {
		deep = `{"not":` + deep + `}`
	}
	add("has-structure", q(`{"v":[]}`, `{"has":`+deep+`}`))
	// F4: every null-producing step followed by every step (and a terminal)
	zoo := c06Zoo()
	for _, ns := range []string{`{"outNull":["nolabel"]}`, `{"inNull":["nolabel"]}`, `{"outENull":["nolabel"]}`, `{"inENull":["nolabel"]}`, `{"outNull":[]}`, `{"inENull":[]}`} {
		for _, z := range zoo {
			add("null-then", q(`{"v":[]}`, `{"as":"m"}`, ns, z))
			for _, t := range []string{`{"count":""}`, `{"render":"_gid"}`, `{"path":[]}`, `{"select":{"marks":["m"]}}`, `{"out":[]}`} {
				add("null-then", q(`{"v":[]}`, `{"as":"m"}`, ns, z, t))
			}
		}
	}
	// F8: zoo x zoo after V() / E(), and after terminals
	for _, a := range zoo {
		for _, b := range zoo {
			add("pairs", q(`{"v":[]}`, `{"as":"m"}`, a, b))
			if !g.Quick() {
				add("pairs", q(`{"e":[]}`, `{"as":"m"}`, a, b))
			}
		}
		add("single", q(a))
		add("single", q(`{"e":[]}`, a))
	}
	// F5: undefined and reserved marks
	for _, m := range []string{"nope", "", "_gid", "__current__", "a b", "$m", "m.x"} {
		add("marks", q(`{"v":[]}`, fmt.Sprintf(`{"as":%s}`, jv(m)), `{"out":[]}`, fmt.Sprintf(`{"select":{"marks":[%s]}}`, jv(m))))
		add("marks", q(`{"v":[]}`, fmt.Sprintf(`{"select":{"marks":[%s,"zz"]}}`, jv(m))))
		add("marks", q(`{"v":[]}`, fmt.Sprintf(`{"render":%s}`, jv("$"+m+".p"))))
		add("marks", q(`{"v":[]}`, fmt.Sprintf(`{"distinct":[%s]}`, jv("$"+m+".p"))))
		add("marks", q(`{"v":[]}`, fmt.Sprintf(`{"mark":%s}`, jv(m)), `{"out":[]}`, fmt.Sprintf(`{"jump":{"mark":%s,"emit":true}}`, jv(m))))
	}
	// F6: aggregations
	aggs := []string{}
	for _, f := range []string{"p", "missing", "", "_gid", "$m.p", "l", "n", "_data"} {
		fq := jv(f)
		for _, sz := range []int{0, 1, 2} {
			aggs = append(aggs, fmt.Sprintf(`{"name":"a","term":{"field":%s,"size":%d}}`, fq, sz))
		}
		for _, iv := range []string{"0", "-1", "1", "0.5", "1e300", "1e-300"} {
			aggs = append(aggs, fmt.Sprintf(`{"name":"a","histogram":{"field":%s,"interval":%s}}`, fq, iv))
		}
		for _, pc := range []string{"[]", "[50]", "[-1,101]", "[0,100,50]"} {
			aggs = append(aggs, fmt.Sprintf(`{"name":"a","percentile":{"field":%s,"percents":%s}}`, fq, pc))
		}
		aggs = append(aggs, fmt.Sprintf(`{"name":"a","field":{"field":%s}}`, fq), fmt.Sprintf(`{"name":"a","type":{"field":%s}}`, fq))
	}
	aggs = append(aggs, `{"name":"a","count":{}}`, `{"name":"a"}`, `{"name":"","count":{}}`, `{}`, `{"name":"a","term":{}}`, `{"name":"a","histogram":{}}`, `{"name":"a","percentile":{}}`)
	inputs := [][]string{{`{"v":[]}`}, {`{"v":[]}`, `{"hasLabel":["nolabel"]}`}, {`{"e":[]}`}, {`{"v":[]}`, `{"as":"m"}`, `{"out":[]}`}}
	for _, a := range aggs {
		for ii, in := range inputs {
			if g.Quick() && ii == 3 && len(a)%2 == 0 {
				continue
			}
			add("aggregate", q(append(append([]string{}, in...), `{"aggregate":{"aggregations":[`+a+`]}}`)...))
		}
	}
	for i, a := range aggs {
		b := aggs[(i*7+3)%len(aggs)]
		add("aggregate-multi", q(`{"v":[]}`, `{"aggregate":{"aggregations":[`+a+`,`+b+`]}}`)) // same name twice
		add("aggregate-multi", q(`{"v":[]}`, `{"hasLabel":["nolabel"]}`, `{"aggregate":{"aggregations":[`+a+`,`+strings.Replace(b, `"name":"a"`, `"name":"b"`, 1)+`]}}`))
	}
	add("aggregate-multi", q(`{"v":[]}`, `{"aggregate":{}}`))
	add("aggregate-multi", q(`{"v":[]}`, `{"aggregate":{"aggregations":[]}}`))
	// F7: range / limit / skip
	for _, r := range []string{`{"range":{"start":-1,"stop":2}}`, `{"range":{"start":3,"stop":1}}`, `{"range":{"start":0,"stop":0}}`, `{"range":{"start":-5,"stop":-5}}`,
		`{"range":{"start":2147483647,"stop":-2147483648}}`, `{"range":{}}`, `{"limit":0}`, `{"limit":4294967295}`, `{"skip":4294967295}`, `{"skip":0}`} {
		add("range", q(`{"v":[]}`, r))
		add("range", q(`{"v":[]}`, r, `{"count":""}`))
		add("range", q(`{"v":[]}`, r, `{"out":[]}`, r))
		add("range", q(`{"v":[]}`, `{"count":""}`, r))
	}
	// F9: jumps
	for _, j := range [][]string{
		{`{"v":[]}`, `{"jump":{"mark":"nowhere"}}`},
		{`{"v":[]}`, `{"mark":"m"}`},
		{`{"v":[]}`, `{"mark":"m"}`, `{"mark":"m"}`, `{"out":[]}`, `{"jump":{"mark":"m"}}`},
		{`{"v":[]}`, `{"jump":{"mark":"m","emit":true}}`, `{"mark":"m"}`, `{"out":[]}`},
		{`{"v":[]}`, `{"mark":"m"}`, `{"out":[]}`, `{"jump":{"mark":"m","expression":{},"emit":true}}`},
		{`{"v":[]}`, `{"mark":"m"}`, `{"out":[]}`, `{"jump":{"mark":"m","expression":` + condJSON("$zz.c", l(), "INSIDE") + `,"emit":false}}`},
		{`{"v":[]}`, `{"set":{"key":"c","value":0}}`, `{"as":"s"}`, `{"mark":"m"}`, `{"out":[]}`, `{"increment":{"key":"$s.c","value":1}}`, `{"has":` + condJSON("$s.c", 3.0, "LT") + `}`, `{"jump":{"mark":"m","emit":true}}`, `{"count":""}`},
		{`{"v":[]}`, `{"mark":"m"}`, `{"outNull":["nolabel"]}`, `{"jump":{"mark":"m","expression":` + condJSON("p", 1.0, "EQ") + `}}`},
		{`{"v":[]}`, `{"mark":""}`, `{"out":[]}`, `{"jump":{"mark":""}}`},
		{`{"v":[]}`, `{"mark":"m"}`, `{"count":""}`, `{"jump":{"mark":"m"}}`},
	} {
		add("jump", q(j...))
	}
	// F12/F13: odd arguments
	for _, s := range []string{
		`{"v":[1,null,{}]}`, `{"v":["a",["b"]]}`, `{"e":[true]}`, `{"v":[""]}`,
	} {
		add("odd-args", q(s))
		add("odd-args", q(s, `{"out":[]}`, `{"count":""}`))
	}
	for _, s := range []string{
		`{"hasLabel":[1]}`, `{"hasLabel":[null,"P"]}`, `{"hasId":[{}]}`, `{"hasKey":[1,""]}`, `{"hasKey":["a[","$","$nope.x"]}`, `{"out":[1,null]}`, `{"bothE":[[]]}`,
		`{"fields":[1]}`, `{"fields":["-"]}`, `{"fields":["$x.y"]}`, `{"fields":["-_gid","-_label","_data"]}`, `{"fields":["n.k","n.d.e","l.x","p.q"]}`, `{"fields":["-n.k","-l.x","-p.q.r"]}`, `{"fields":[""]}`,
		`{"unwind":""}`, `{"unwind":"_gid"}`, `{"unwind":"n.k"}`, `{"unwind":"$nope.l"}`, `{"unwind":"a["}`, `{"unwind":"_data"}`,
		`{"render":null}`, `{"render":1}`, `{"render":[[["_gid"]],{"a":{"b":"$nope.x"}}]}`, `{"render":"a["}`, `{"render":""}`, `{"render":"$"}`,
		`{"path":["x",1]}`, `{"distinct":["","$","a[","$nope.x","_data",1]}`, `{"distinct":["l","n"]}`,
		`{"set":{"key":"","value":1}}`, `{"set":{"key":"_gid","value":{"a":[1]}}}`, `{"set":{"key":"$nope.c","value":1}}`, `{"set":{}}`, `{"set":{"key":"a.b.c","value":null}}`,
		`{"increment":{"key":"","value":1}}`, `{"increment":{"key":"s","value":2147483647}}`, `{"increment":{"key":"l"}}`, `{"increment":{"key":"_gid","value":1}}`, `{"increment":{}}`,
		`{"as":"x"}`, `{"select":{}}`, `{"select":{"marks":[""]}}`, `{}`,
	} {
		add("odd-args", q(`{"v":[]}`, s))
		add("odd-args", q(`{"v":[]}`, s, `{"out":[]}`))
		add("odd-args", q(`{"e":[]}`, s, `{"count":""}`))
	}
	add("odd-args", nil)
	add("odd-args", q(`{"count":""}`))
	// F10: edits through the live server
	rpc := func(family, method string, reqs ...string) {
		cases = append(cases, fw.MkCase("rpc", c06Case{Family: family, Via: "rpc", Method: method, Reqs: reqs}))
	}
	vtx := func(graph, gid, label, data string) string {
		return fmt.Sprintf(`{"graph":%s,"vertex":{"gid":%s,"label":%s,"data":%s}}`, jv(graph), jv(gid), jv(label), data)
	}
	edg := func(graph, gid, label, from, to string) string {
		return fmt.Sprintf(`{"graph":%s,"edge":{"gid":%s,"label":%s,"from":%s,"to":%s}}`, jv(graph), jv(gid), jv(label), jv(from), jv(to))
	}
	graphs := []string{"edit", "missing", "edit__schema__", "edit__mapping__", "", "bad name", "pop__schema__"}
	elems := func(gr string) []string {
		return []string{
			fmt.Sprintf(`{"graph":%s}`, jv(gr)),
			fmt.Sprintf(`{"graph":%s,"vertex":{}}`, jv(gr)),
			fmt.Sprintf(`{"graph":%s,"edge":{}}`, jv(gr)),
			fmt.Sprintf(`{"graph":%s,"vertex":{"gid":"v1","label":"L"},"edge":{"gid":"e9","label":"r","from":"v1","to":"v1"}}`, jv(gr)),
			vtx(gr, "v1", "L", `{"p":1}`), vtx(gr, "", "L", `{}`), vtx(gr, "v2", "", `{}`), vtx(gr, "v3", "L", `{"_gid":1}`), vtx(gr, "v4", "L", `{"a b":{"c":[1,{"d":null}]}}`),
			vtx(gr, "v5", "L", `null`), edg(gr, "e1", "r", "v1", "v2"), edg(gr, "", "r", "v1", "v1"), edg(gr, "e2", "", "v1", "v1"), edg(gr, "e3", "r", "", "v1"), edg(gr, "e4", "r", "v1", ""),
		}
	}
	for _, gr := range graphs {
		for _, e := range elems(gr) {
			rpc("edit", "Edit/AddVertex", e)
			rpc("edit", "Edit/AddEdge", e)
			rpc("bulk", "Edit/BulkAdd", e)
		}
	}
	rng := rand.New(rand.NewSource(g.Seed*17 + 5))
	nb := g.Pick(150, 5000)
	for i := 0; i < nb; i++ {
		// BulkAdd streams alternating existing, missing and schema graphs
		var reqs []string
		ln := 1 + rng.Intn(6)
		for j := 0; j < ln; j++ {
			es := elems(graphs[rng.Intn(4)])
			reqs = append(reqs, es[rng.Intn(len(es))])
		}
		rpc("bulk", "Edit/BulkAdd", reqs...)
	}
	rpc("bulk", "Edit/BulkAdd")
	// F11: every RPC with zero-valued and hostile-string requests
	hostile := []string{"", "edit", "missing", "edit__schema__", "a b", "\x00", "../../etc", strings.Repeat("x", 5000), "job-1", "__schema__", "__mapping__"}
	for _, m := range gq.Methods() {
		name := m.Service + "/" + m.Name
		if name == "Edit/BulkAdd" || name == "Configure/StartPlugin" {
			continue
		}
		rpc("unary-zero", name, `{}`)
		for _, h := range hostile {
			req := map[string]interface{}{}
			fs := m.Input.Fields()
			for i := 0; i < fs.Len(); i++ {
				f := fs.Get(i)
				if f.Kind().String() == "string" && !f.IsList() {
					req[f.JSONName()] = h
				}
			}
			if len(req) == 0 {
				continue
			}
			switch m.Input.Name() {
			case "GraphQuery", "ExtendQuery":
				for _, qq := range []string{`[{"v":[]}]`, `[{"v":[]},{"count":""}]`, `[]`, `[{}]`, `[{"out":[]}]`, `[{"v":[]},{"select":{"marks":["zz"]}}]`, `[{"v":[]},{"as":"a"},{"render":"$a.p"}]`} {
					var qv interface{}
					json.Unmarshal([]byte(qq), &qv)
					req["query"] = qv
					rpc("unary-hostile", name, jv(req))
				}
			case "Graph":
				for _, body := range []string{`{}`, `{"vertices":[{}],"edges":[{}]}`, `{"vertices":[{"gid":"a","label":"L","data":{"x":"STRING"}}],"edges":[{"gid":"e","label":"r","from":"a","to":"zz"}]}`, `{"vertices":[null]}`} {
					var b map[string]interface{}
					json.Unmarshal([]byte(body), &b)
					for k, v := range req {
						b[k] = v
					}
					rpc("unary-hostile", name, jv(b))
				}
			default:
				rpc("unary-hostile", name, jv(req))
			}
		}
	}
	if !g.Quick() {
		// thorough: random compositions of zoo steps of length 3..6
		for i := 0; i < 40000; i++ {
			ln := 3 + rng.Intn(4)
			s := []string{[]string{`{"v":[]}`, `{"e":[]}`, `{"v":["a","zz"]}`}[rng.Intn(3)], `{"as":"m"}`}
			for j := 0; j < ln; j++ {
				if rng.Intn(6) == 0 {
					s = append(s, `{"has":`+condJSON(c06Keys[rng.Intn(len(c06Keys))], c06Values[rng.Intn(len(c06Values))], c06Conds[rng.Intn(len(c06Conds))])+`}`)
				} else {
					s = append(s, zoo[rng.Intn(len(zoo))])
				}
			}
			add("random", q(s...))
		}
	}
	return cases
}

// ---------------------------------------------------------------------------

type c06Env struct {
	ls       *gq.LiveServer
	popCount uint32
}

func c06PopGraph() *tGraph {
	d := richData
	// acyclic, so that mark/jump bodies made of out() terminate
	return &tGraph{Name: "pop",
		V: []*model.Elem{mv("a", "P", d[1]), mv("b", "Q", d[2]), mv("c", "P", d[3]), mv("d", "Q", d[4]), mv("e", "R", nil), mv("f", "R", d[5])},
		E: []*model.Elem{me("e1", "r", "a", "b", d[1]), me("e2", "s", "a", "c", d[2]), me("e3", "r", "b", "d", nil), me("e4", "s", "c", "d", d[4]), me("e5", "r", "d", "e", d[3]), me("e6", "r", "a", "zz", nil)}}
}

func c06Setup(w *fw.Worker) *c06Env {
	return w.State("c06", func() interface{} {
		ls, err := gq.StartServer(w.NewDir("c06srv"), gq.ServerOpts{})
		if err != nil {
			panic(err)
		}
		loadTGraph(ls.DB, "pop", c06PopGraph())
		loadTGraph(ls.DB, "empty", &tGraph{})
		ls.E.AddGraph(context.Background(), &gripql.GraphID{Graph: "edit"})
		return &c06Env{ls: ls, popCount: 6}
	}).(*c06Env)
}

const c06RowCap = 200000

func c06Exec(w *fw.Worker, c fw.Case) fw.Result {
	var cc c06Case
	c.Decode(&cc)
	env := c06Setup(w)
	ctx, cancel := context.WithTimeout(context.Background(), 60*time.Second)
	defer cancel()
	res := fw.HeldR(true, "")
	res.AddSet("families", cc.Family)
	answered := "rows"
	switch {
	case c.Kind == "query" && cc.Via == "run":
		stmts, perr := parseStmts(cc.Stmts)
		if perr != nil {
			return fw.HeldR(false, "unparseable")
		}
		gi, err := env.ls.DB.Graph(cc.Graph)
		if err != nil {
			return fw.InconclusiveR("graph: " + err.Error())
		}
		pipe, err := gi.Compiler().Compile(stmts, nil)
		if err != nil {
			answered = "compile-error"
		} else {
			n := 0
			rctx, rcancel := context.WithCancel(ctx)
			for range pipeline.Run(rctx, pipe, w.NewDir("work")) {
				n++
				if n > c06RowCap {
					rcancel()
					r := fw.ViolatedR("divergence:"+stepKey(stmts), fmt.Sprintf("the traversal streamed more than %d rows from a 6-vertex graph and is still going: %s", c06RowCap, gq.QueryString(stmts)), cc)
					r.ExitAfter = true
					return r
				}
			}
			rcancel()
			res.Count("rows", int64(n))
		}
	case c.Kind == "query" && cc.Via == "rpc":
		stmts, perr := parseStmts(cc.Stmts)
		if perr != nil {
			return fw.HeldR(false, "unparseable")
		}
		st, err := env.ls.Q.Traversal(ctx, &gripql.GraphQuery{Graph: cc.Graph, Query: stmts})
		if err != nil {
			answered = "error"
		} else {
			n := 0
			for {
				_, err := st.Recv()
				if err != nil {
					if err.Error() != "EOF" {
						answered = "error"
					}
					break
				}
				n++
				if n > c06RowCap {
					r := fw.ViolatedR("divergence:"+stepKey(stmts), fmt.Sprintf("the server streamed more than %d rows from a 6-vertex graph: %s", c06RowCap, gq.QueryString(stmts)), cc)
					r.ExitAfter = true
					return r
				}
			}
		}
	case c.Kind == "rpc":
		parts := strings.SplitN(cc.Method, "/", 2)
		m := gq.MethodByName(parts[0], parts[1])
		// keep the scratch graph around for the edit families
		env.ls.E.AddGraph(ctx, &gripql.GraphID{Graph: "edit"})
		rep := gq.Invoke(ctx, env.ls.Conn, m, cc.Reqs)
		if !rep.OK() {
			answered = "error:" + rep.Code.String()
			if rep.Code.String() == "Unavailable" || rep.Code.String() == "DeadlineExceeded" {
				return fw.InconclusiveR("rpc " + cc.Method + ": " + rep.Err)
			}
		}
		if cc.Method == "Job/Submit" && rep.OK() && len(rep.Messages) == 1 {
			// a job runs after Submit returned: wait for it so that a crash is attributed to this case
			job := &gripql.QueryJob{}
			protojson.Unmarshal([]byte(rep.Messages[0]), job)
			for i := 0; i < 400; i++ {
				stt, err := env.ls.J.GetJob(ctx, job)
				if err != nil || (stt.State != gripql.JobState_RUNNING && stt.State != gripql.JobState_QUEUED) {
					break
				}
				time.Sleep(5 * time.Millisecond)
			}
		}
		res.AddSet("methods", cc.Method)
	}
	res.AddSet("answers", answered)
	// canary: the server keeps serving
	gi, err := env.ls.DB.Graph("pop")
	if err != nil {
		return fw.ViolatedR("canary:graph-lost", "after the request the populated graph is gone: "+err.Error(), cc)
	}
	rows := gq.Run(ctx, gi.Compiler(), gripql.V().Count().Statements, w.NewDir("work"))
	if rows.CompileErr != "" || len(rows.Rows) != 1 || rows.Rows[0].GetCount() != env.popCount {
		return fw.ViolatedR("canary:count", fmt.Sprintf("after the request V().count() on the populated graph answers %v (expected %d)", gq.CanonRows(rows.Rows), env.popCount), cc)
	}
	if cc.Via == "rpc" {
		lg, err := env.ls.Q.ListGraphs(ctx, &gripql.Empty{})
		if err != nil || len(lg.Graphs) < 2 {
			return fw.ViolatedR("canary:listgraphs", fmt.Sprintf("after the request ListGraphs answers %v / %v", lg, err), cc)
		}
	}
	return res
}

func parseStmts(raw []json.RawMessage) ([]*gripql.GraphStatement, error) {
	out := make([]*gripql.GraphStatement, len(raw))
	for i, r := range raw {
		s := &gripql.GraphStatement{}
		if err := protojson.Unmarshal(r, s); err != nil {
			return nil, err
		}
		out[i] = s
	}
	return out, nil
}

var _ gdbi.GraphDB

func init() {
	fw.Register(&fw.Property{
		ID:   "C06",
		Rule: "structure-aware hostile requests over the real protobuf types, families enumerated over small structural spaces: condition operator x key x value kind (first after V(), after marks, on edges); malformed has-expressions; every null-producing step x every statement kind (x a terminal); every ordered pair of 45 statement kinds; undefined/reserved marks; every aggregation kind x fields x parameters x inputs (empty, missing field), duplicate/empty names; negative/reversed ranges; jumps to missing/duplicate marks; odd list arguments; AddVertex/AddEdge/BulkAdd elements (nil vertex/edge, both, blank fields) x graphs (existing, missing, schema, invalid); random BulkAdd streams switching graphs; every RPC found by reflection with zero-valued and hostile-string requests. Queries run through Compile+pipeline.Run on a populated and an empty graph and (a third of them / all in thorough) through a live server's gRPC Traversal. A case holds iff the worker process survived it and the canary (V().count() on the populated graph, ListGraphs) still answers correctly. Every case is non-trivial; distinct = distinct requests.",
		Assumptions: []string{
			"a request that protojson cannot parse never reaches the server and is skipped",
			"mark/jump loops are driven only on an acyclic graph with out() bodies: a loop that cannot terminate by construction is documented behaviour, not a crash",
			"a run that streams more than 200000 rows from a 6-vertex graph is reported as divergence (a count of rows, not of seconds)",
		},
		BatchSize:   250,
		CaseTimeout: 40 * time.Second,
		Gen:         c06Gen,
		Exec:        c06Exec,
		Sample: func(c fw.Case, r fw.Result) interface{} {
			var cc c06Case
			c.Decode(&cc)
			return map[string]interface{}{"family": cc.Family, "via": cc.Via, "graph": cc.Graph, "query": cc.Stmts, "method": cc.Method, "requests": cc.Reqs, "answer": r.Sets["answers"]}
		},
	})
}
