package main

import (
	"context"
	"encoding/json"
	"fmt"
	"math"
	"math/rand"
	"sort"
	"strings"
	"time"

	"github.com/bmeg/grip/gdbi"
	"github.com/bmeg/grip/gripql"

	"verifharness/fw"
	"verifharness/gq"
)

// C19 – aggregations summarise exactly the rows they are given.

type aggSpec struct {
	Kind     string    `json:"kind"` // count term histogram percentile field type
	Name     string    `json:"name"`
	Field    string    `json:"field,omitempty"`
	Size     uint32    `json:"size,omitempty"`
	Interval uint32    `json:"interval,omitempty"`
	Percents []float64 `json:"percents,omitempty"`
}

func (a aggSpec) pb() *gripql.Aggregate {
	out := &gripql.Aggregate{Name: a.Name}
	switch a.Kind {
	case "count":
		out.Aggregation = &gripql.Aggregate_Count{Count: &gripql.CountAggregation{}}
	case "term":
		out.Aggregation = &gripql.Aggregate_Term{Term: &gripql.TermAggregation{Field: a.Field, Size: a.Size}}
	case "histogram":
		out.Aggregation = &gripql.Aggregate_Histogram{Histogram: &gripql.HistogramAggregation{Field: a.Field, Interval: a.Interval}}
	case "percentile":
		out.Aggregation = &gripql.Aggregate_Percentile{Percentile: &gripql.PercentileAggregation{Field: a.Field, Percents: a.Percents}}
	case "field":
		out.Aggregation = &gripql.Aggregate_Field{Field: &gripql.FieldAggregation{Field: a.Field}}
	case "type":
		out.Aggregation = &gripql.Aggregate_Type{Type: &gripql.TypeAggregation{Field: a.Field}}
	}
	return out
}

type c19Case struct {
	// Values of field "f" per vertex; the JSON string "__missing__" means the key is absent.
	Values []interface{} `json:"values"`
	Gen    string        `json:"gen,omitempty"` // large generated inputs: "n:<count>"
	Aggs   []aggSpec     `json:"aggs"`
	// NullRows: the rows reaching aggregate() are null travelers (V().hasLabel(L).as(a).outNull()
	// on vertices without edges); the aggregations read the same fields through the mark ($a.f)
	NullRows bool `json:"null_rows,omitempty"`
}

const missing = "__missing__"

func c19ValueSets() map[string][]interface{} {
	return map[string][]interface{}{
		"empty":      {},
		"one":        {3.0},
		"all-equal":  {2.0, 2.0, 2.0, 2.0},
		"ties":       {"a", "b", "a", "b", "c", "c", "d"},
		"numbers":    {1.0, 2.5, -3.0, 0.0, 7.0, 7.0, 12.5, -0.5, 5.0, 10.0},
		"negatives":  {-1.0, -5.0, -5.5, -10.0, -0.25},
		"mixed":      {1.0, "x", nil, missing, true, false, []interface{}{1.0}, map[string]interface{}{"k": 1.0}, 2.0, "x", "y", 2.0, 2.0, missing, -4.0},
		"no-numbers": {"x", nil, missing, true, []interface{}{}, "x"},
		"missing":    {missing, missing, missing},
		"strings":    {"p", "q", "p", "", "r", "p", "q"},
		"lookalikes": {true, "true", true, false, "false", "false", "false", nil, "null", 1.0, "one"}, // strings that print like a bool or null (numeric text is not generated)
		"maps":       {map[string]interface{}{"a": 1.0, "b": 2.0}, map[string]interface{}{"a": "s"}, map[string]interface{}{}, 5.0, missing},
	}
}

func c19AggSpecs() []aggSpec {
	var out []aggSpec
	out = append(out, aggSpec{Kind: "count", Name: "c"})
	for _, sz := range []uint32{0, 1, 2, 3, 100} {
		out = append(out, aggSpec{Kind: "term", Name: fmt.Sprintf("t%d", sz), Field: "f", Size: sz})
	}
	for _, iv := range []uint32{1, 5, 2, 10} {
		out = append(out, aggSpec{Kind: "histogram", Name: fmt.Sprintf("h%v", iv), Field: "f", Interval: iv})
	}
	for i, pc := range [][]float64{{}, {50}, {0, 25, 50, 75, 100}, {99, 1}} {
		out = append(out, aggSpec{Kind: "percentile", Name: fmt.Sprintf("p%d", i), Field: "f", Percents: pc})
	}
	out = append(out, aggSpec{Kind: "field", Name: "fd", Field: "_data"}, aggSpec{Kind: "field", Name: "ff", Field: "f"})
	out = append(out, aggSpec{Kind: "type", Name: "ty", Field: "f"}, aggSpec{Kind: "type", Name: "tyo", Field: "other"})
	out = append(out, aggSpec{Kind: "term", Name: "to", Field: "other", Size: 0}, aggSpec{Kind: "histogram", Name: "ho", Field: "other", Interval: 1})
	return out
}

func c19Gen(g *fw.GenCtx) []fw.Case {
	var cases []fw.Case
	specs := c19AggSpecs()
	sets := c19ValueSets()
	var names []string
	for n := range sets {
		names = append(names, n)
	}
	sort.Strings(names)
	// every single aggregation on every value set
	for _, n := range names {
		for _, s := range specs {
			cases = append(cases, fw.MkCase("agg", c19Case{Values: sets[n], Aggs: []aggSpec{s}}))
			cases = append(cases, fw.MkCase("agg", c19Case{Values: sets[n], Aggs: []aggSpec{s}, NullRows: true}))
		}
	}
	// every subset of aggregation KINDS of size 2 and 3 in one step (one representative per kind, rotating)
	kinds := map[string][]aggSpec{}
	var kindNames []string
	for _, s := range specs {
		if _, ok := kinds[s.Kind]; !ok {
			kindNames = append(kindNames, s.Kind)
		}
		kinds[s.Kind] = append(kinds[s.Kind], s)
	}
	rot := 0
	pick := func(k string) aggSpec {
		rot++
		return kinds[k][rot%len(kinds[k])]
	}
	for i := 0; i < len(kindNames); i++ {
		for j := i + 1; j < len(kindNames); j++ {
			for _, n := range names {
				cases = append(cases, fw.MkCase("agg", c19Case{Values: sets[n], Aggs: []aggSpec{pick(kindNames[i]), pick(kindNames[j])}}))
			}
			for k := j + 1; k < len(kindNames); k++ {
				for ni, n := range names {
					if g.Quick() && (i+j+k+ni)%3 != 0 {
						continue
					}
					cases = append(cases, fw.MkCase("agg", c19Case{Values: sets[n], Aggs: []aggSpec{pick(kindNames[i]), pick(kindNames[j]), pick(kindNames[k])}}))
				}
			}
		}
	}
	// two aggregations of the same kind (different names) in one step
	for _, n := range names {
		cases = append(cases, fw.MkCase("agg", c19Case{Values: sets[n], Aggs: []aggSpec{specs[1], specs[3], specs[6], specs[7]}}))
	}
	// row counts around the 1000-slot aggregation buffers
	for _, n := range []int{999, 1000, 1001, 2500} {
		if g.Quick() && n > 1001 {
			continue
		}
		cases = append(cases, fw.MkCase("agg", c19Case{Gen: fmt.Sprintf("n:%d", n), Aggs: []aggSpec{specs[0], specs[2], specs[6], specs[12]}}))
		cases = append(cases, fw.MkCase("agg", c19Case{Gen: fmt.Sprintf("n:%d", n), Aggs: []aggSpec{specs[1]}}))
	}
	// more distinct terms than the term aggregation's in-memory limit (100000)
	if !g.Avoid["c19-over-100000-distinct-terms"] {
		cases = append(cases, fw.MkCase("agg", c19Case{Gen: "d:100002", Aggs: []aggSpec{specs[1], specs[0]}}))
	}
	if !g.Quick() {
		cases = append(cases, fw.MkCase("agg", c19Case{Gen: "d:99999", Aggs: []aggSpec{specs[1], specs[0]}}))
	}
	// random multisets
	rng := rand.New(rand.NewSource(g.Seed*41 + 2))
	pool := []interface{}{missing, nil, true, 1.0, 2.0, 2.0, 3.5, -1.0, -7.25, 0.0, 10.0, "a", "b", "a", "", "true", "false", "null", []interface{}{1.0}, map[string]interface{}{"k": 1.0}, 100.0, 0.5}
	n := g.Pick(1500, 20000)
	for i := 0; i < n; i++ {
		ln := rng.Intn(25)
		var vals []interface{}
		for j := 0; j < ln; j++ {
			vals = append(vals, pool[rng.Intn(len(pool))])
		}
		k := 1 + rng.Intn(3)
		var as []aggSpec
		used := map[string]bool{}
		for len(as) < k {
			s := specs[rng.Intn(len(specs))]
			if !used[s.Name] {
				used[s.Name] = true
				as = append(as, s)
			}
		}
		cases = append(cases, fw.MkCase("agg", c19Case{Values: vals, Aggs: as, NullRows: i%4 == 3}))
	}
	return cases
}

// ---------------------------------------------------------------------------

type aggRow struct {
	Key   interface{}
	Value float64
}

func lookupField(data map[string]interface{}, field string) (interface{}, bool) {
	if field == "_data" {
		return data, true
	}
	v, ok := data[field]
	return v, ok
}

func isScalar(v interface{}) bool {
	switch v.(type) {
	case nil, []interface{}, map[string]interface{}:
		return false
	}
	return true
}

func keyStr(v interface{}) string {
	b, _ := json.Marshal(v)
	return string(b)
}

// checkAgg verifies the rows of one aggregation against direct computation
// over the input rows.
func checkAgg(a aggSpec, inputs []map[string]interface{}, rows []aggRow) string {
	switch a.Kind {
	case "count":
		if len(rows) != 1 || rows[0].Value != float64(len(inputs)) {
			return fmt.Sprintf("count: got %v, the traversal has %d rows", rows, len(inputs))
		}
	case "term":
		freq := map[string]int{}
		for _, in := range inputs {
			if v, ok := lookupField(in, a.Field); ok && isScalar(v) {
				freq[keyStr(v)]++
			}
		}
		seen := map[string]bool{}
		for _, r := range rows {
			k := keyStr(r.Key)
			if seen[k] {
				return fmt.Sprintf("term: bucket %s returned twice", k)
			}
			seen[k] = true
			if freq[k] == 0 {
				return fmt.Sprintf("term: bucket %s is not a scalar value of the field", k)
			}
			if float64(freq[k]) != r.Value {
				return fmt.Sprintf("term: bucket %s has frequency %v, the rows contain it %d times", k, r.Value, freq[k])
			}
		}
		want := len(freq)
		if a.Size > 0 && int(a.Size) < want {
			want = int(a.Size)
		}
		if len(rows) != want {
			return fmt.Sprintf("term: %d buckets returned, expected %d (distinct scalar values %d, size %d)", len(rows), want, len(freq), a.Size)
		}
		if a.Size > 0 && int(a.Size) < len(freq) {
			// a valid top-size choice: every returned frequency >= every omitted frequency
			minRet := math.MaxInt32
			for _, r := range rows {
				if int(r.Value) < minRet {
					minRet = int(r.Value)
				}
			}
			for k, f := range freq {
				if !seen[k] && f > minRet {
					return fmt.Sprintf("term: value %s (frequency %d) was omitted although a bucket with frequency %d was returned (size %d)", k, f, minRet, a.Size)
				}
			}
		}
	case "histogram":
		var nums []float64
		for _, in := range inputs {
			if v, ok := lookupField(in, a.Field); ok {
				if f, isNum := v.(float64); isNum {
					nums = append(nums, f)
				}
			}
		}
		iv := float64(a.Interval)
		total := 0.0
		seen := map[float64]bool{}
		for _, r := range rows {
			k, ok := r.Key.(float64)
			if !ok {
				return fmt.Sprintf("histogram: bucket key %v is not a number", r.Key)
			}
			if seen[k] {
				return fmt.Sprintf("histogram: bucket %v returned twice", k)
			}
			seen[k] = true
			if q := k / iv; math.Abs(q-math.Round(q)) > 1e-9 {
				return fmt.Sprintf("histogram: bucket %v is not a multiple of the interval %v", k, iv)
			}
			cnt := 0
			for _, n := range nums {
				if n >= k && n < k+iv {
					cnt++
				}
			}
			if float64(cnt) != r.Value {
				return fmt.Sprintf("histogram: bucket [%v,%v) reports %v, the rows hold %d numeric values in it", k, k+iv, r.Value, cnt)
			}
			total += r.Value
		}
		if total != float64(len(nums)) {
			return fmt.Sprintf("histogram: buckets sum to %v, the rows hold %d numeric values", total, len(nums))
		}
	case "percentile":
		var nums []float64
		for _, in := range inputs {
			if v, ok := lookupField(in, a.Field); ok {
				if f, isNum := v.(float64); isNum {
					nums = append(nums, f)
				}
			}
		}
		if len(rows) != len(a.Percents) {
			return fmt.Sprintf("percentile: %d rows for %d requested percents", len(rows), len(a.Percents))
		}
		if len(nums) == 0 {
			return "" // no numeric value: the quantile is unspecified
		}
		sort.Float64s(nums)
		type pv struct{ p, v float64 }
		var pvs []pv
		for _, r := range rows {
			p, ok := r.Key.(float64)
			if !ok {
				return fmt.Sprintf("percentile: key %v is not a number", r.Key)
			}
			if math.IsNaN(r.Value) || r.Value < nums[0]-1e-9 || r.Value > nums[len(nums)-1]+1e-9 {
				return fmt.Sprintf("percentile: p%v = %v lies outside [min,max] = [%v,%v] of the numeric values", p, r.Value, nums[0], nums[len(nums)-1])
			}
			pvs = append(pvs, pv{p, r.Value})
		}
		sort.Slice(pvs, func(i, j int) bool { return pvs[i].p < pvs[j].p })
		for i := 1; i < len(pvs); i++ {
			if pvs[i].v < pvs[i-1].v-1e-9 {
				return fmt.Sprintf("percentile: p%v = %v is below p%v = %v", pvs[i].p, pvs[i].v, pvs[i-1].p, pvs[i-1].v)
			}
		}
	case "field":
		freq := map[string]int{}
		for _, in := range inputs {
			if v, ok := lookupField(in, a.Field); ok {
				if m, isMap := v.(map[string]interface{}); isMap {
					for k := range m {
						freq[k]++
					}
				}
			}
		}
		return cmpCounts("field", freq, rows)
	case "type":
		freq := map[string]int{}
		for _, in := range inputs {
			v, _ := lookupField(in, a.Field)
			t := "UNKNOWN"
			switch v.(type) {
			case string:
				t = "STRING"
			case float64:
				t = "NUMERIC"
			case bool:
				t = "BOOL"
			}
			freq[t]++
		}
		return cmpCounts("type", freq, rows)
	}
	return ""
}

func cmpCounts(kind string, freq map[string]int, rows []aggRow) string {
	seen := map[string]bool{}
	for _, r := range rows {
		k, _ := r.Key.(string)
		if seen[k] {
			return fmt.Sprintf("%s: key %s returned twice", kind, k)
		}
		seen[k] = true
		if float64(freq[k]) != r.Value {
			return fmt.Sprintf("%s: key %s counted %v times, present in %d rows", kind, k, r.Value, freq[k])
		}
	}
	for k := range freq {
		if !seen[k] {
			return fmt.Sprintf("%s: key %s (present in %d rows) is missing from the result", kind, k, freq[k])
		}
	}
	return ""
}

type c19Env struct {
	db gdbi.GraphDB
	n  int
}

func runAgg(ctx context.Context, gi gdbi.GraphInterface, w *fw.Worker, aggs []aggSpec, nullRows bool) (map[string][]aggRow, string) {
	var pbs []*gripql.Aggregate
	for _, a := range aggs {
		if nullRows && a.Field != "" {
			a.Field = "$a." + a.Field
		}
		pbs = append(pbs, a.pb())
	}
	q := gripql.V().HasLabel("L").Aggregate(pbs)
	if nullRows {
		q = gripql.V().HasLabel("L").As("a").OutNull().Aggregate(pbs)
	}
	rows := gq.Run(ctx, gi.Compiler(), q.Statements, w.NewDir("work"))
	if rows.CompileErr != "" {
		return nil, rows.CompileErr
	}
	out := map[string][]aggRow{}
	for _, r := range rows.Rows {
		a := r.GetAggregations()
		if a == nil {
			return nil, "non-aggregation row " + gq.Canon(r)
		}
		out[a.Name] = append(out[a.Name], aggRow{Key: a.Key.AsInterface(), Value: a.Value})
	}
	return out, ""
}

func canonAggRows(rows []aggRow) string {
	var l []string
	for _, r := range rows {
		l = append(l, fmt.Sprintf("%s=%v", keyStr(r.Key), r.Value))
	}
	sort.Strings(l)
	return strings.Join(l, ",")
}

func c19Exec(w *fw.Worker, c fw.Case) fw.Result {
	var cc c19Case
	c.Decode(&cc)
	env := w.State("c19", func() interface{} {
		db, err := gq.OpenBadger(w.NewDir("c19db"))
		if err != nil {
			panic(err)
		}
		return &c19Env{db: db}
	}).(*c19Env)
	env.n++
	gname := fmt.Sprintf("g%d", env.n)
	env.db.AddGraph(gname)
	defer env.db.DeleteGraph(gname)
	gi, _ := env.db.Graph(gname)
	values := cc.Values
	if strings.HasPrefix(cc.Gen, "n:") {
		var n int
		fmt.Sscanf(cc.Gen, "n:%d", &n)
		for i := 0; i < n; i++ {
			switch i % 7 {
			case 0:
				values = append(values, fmt.Sprintf("s%d", i%5))
			case 1:
				values = append(values, missing)
			default:
				values = append(values, float64(i%13)-4.5)
			}
		}
	}
	if strings.HasPrefix(cc.Gen, "d:") {
		// n distinct numeric values (term aggregations keep at most 100000 unique terms in memory)
		var n int
		fmt.Sscanf(cc.Gen, "d:%d", &n)
		for i := 0; i < n; i++ {
			values = append(values, float64(i))
		}
	}
	var vs []*gdbi.Vertex
	for i, v := range values {
		data := map[string]interface{}{"other": float64(i % 3)}
		if s, ok := v.(string); !(ok && s == missing) {
			data["f"] = v
		}
		vs = append(vs, &gdbi.Vertex{ID: fmt.Sprintf("v%d", i), Label: "L", Data: data, Loaded: true})
	}
	if len(vs) > 0 {
		if err := gi.AddVertex(vs); err != nil {
			return fw.InconclusiveR("load: " + err.Error())
		}
	}
	gi.AddVertex([]*gdbi.Vertex{{ID: "bystander", Label: "M", Data: map[string]interface{}{"f": 1000.0}, Loaded: true}})
	ctx := context.Background()
	// the same engine run supplies the input rows
	in := gq.Run(ctx, gi.Compiler(), gripql.V().HasLabel("L").Statements, w.NewDir("work"))
	var inputs []map[string]interface{}
	for _, r := range in.Rows {
		inputs = append(inputs, r.GetVertex().GetData().AsMap())
	}
	if len(inputs) != len(values) {
		return fw.InconclusiveR(fmt.Sprintf("input traversal returned %d rows for %d vertices", len(inputs), len(values)))
	}
	res := fw.HeldR(len(inputs) > 0, "")
	res.Count("input_rows", int64(len(inputs)))
	detail := map[string]interface{}{"aggs": cc.Aggs}
	if len(values) <= 40 {
		detail["values"] = values
	} else {
		detail["values"] = cc.Gen
	}
	combined, cerr := runAgg(ctx, gi, w, cc.Aggs, cc.NullRows)
	if cerr != "" {
		return fw.ViolatedR("aggregate:error", "aggregate step failed: "+cerr, detail)
	}
	for _, a := range cc.Aggs {
		res.AddSet("kinds", a.Kind)
		if msg := checkAgg(a, inputs, combined[a.Name]); msg != "" {
			detail["rows"] = canonAggRows(combined[a.Name])
			key := "agg:" + a.Kind + ":" + msgClass(msg)
			if a.Kind == "term" && len(inputs) > 100000 {
				key = "agg:term:over-100000-distinct-terms"
			}
			return fw.ViolatedR(key, fmt.Sprintf("aggregation %s over %d rows: %s", a.Name, len(inputs), msg), detail)
		}
		res.Count("aggregations_checked", 1)
		if len(cc.Aggs) > 1 {
			alone, aerr := runAgg(ctx, gi, w, []aggSpec{a}, cc.NullRows)
			if aerr != "" {
				return fw.ViolatedR("aggregate:error", "aggregate step failed: "+aerr, detail)
			}
			if a.Kind != "percentile" && !(a.Kind == "term" && a.Size > 0) && canonAggRows(alone[a.Name]) != canonAggRows(combined[a.Name]) {
				detail["alone"], detail["combined"] = canonAggRows(alone[a.Name]), canonAggRows(combined[a.Name])
				return fw.ViolatedR("agg:independence:"+a.Kind, fmt.Sprintf("aggregation %s answers %s alone but %s next to the other aggregations", a.Name, canonAggRows(alone[a.Name]), canonAggRows(combined[a.Name])), detail)
			}
			res.Count("independence_checks", 1)
		}
	}
	for name := range combined {
		found := false
		for _, a := range cc.Aggs {
			if a.Name == name {
				found = true
			}
		}
		if !found {
			return fw.ViolatedR("agg:unrequested", "rows for an aggregation that was not requested: "+name, detail)
		}
	}
	return res
}

// msgClass strips the numbers from an oracle message so that it names a class.
func msgClass(msg string) string {
	parts := strings.SplitN(msg, ":", 2)
	m := strings.TrimSpace(parts[len(parts)-1])
	var sb strings.Builder
	for _, r := range m {
		if (r >= '0' && r <= '9') || r == '.' || r == '-' || r == '[' || r == ']' || r == '(' || r == ')' || r == ',' || r == '"' {
			continue
		}
		sb.WriteRune(r)
	}
	f := strings.Fields(sb.String())
	if len(f) > 6 {
		f = f[:6]
	}
	return strings.Join(f, "-")
}

func min(a, b int) int {
	if a < b {
		return a
	}
	return b
}

func init() {
	fw.Register(&fw.Property{
		ID:   "C19",
		Rule: "V().hasLabel(L).aggregate(A) - and V().hasLabel(L).as(a).outNull().aggregate(A over $a.f), whose rows are null travelers - on graphs whose field f holds a generated multiset (empty, single, all-equal, ties, negatives, mixed JSON kinds incl. missing/null/bool/list/map, no numeric value at all, 999/1000/1001 rows), a bystander vertex with another label; A = every single aggregation of 22 specs (count; term with size 0,1,2,3,100; histogram with interval 1,2,5,10; percentile with percent lists [],[50],[0,25,50,75,100],[99,1]; field on _data and f; type) on every multiset, every pair and (quick: a third of) every triple of aggregation kinds, 1500 / 20000 random multisets with 1-3 aggregations. The rows of the same engine run without aggregate() are the input of the oracle: count = number of rows; term buckets = exact frequencies of distinct scalar values, at most size of them and a valid top-size choice; histogram buckets are multiples of the interval, each counts exactly the numeric values inside it, the sum is the number of numeric values; field/type counts exact; percentiles non-decreasing in p and within [min,max]; each aggregation's answer equals its answer when requested alone. Non-trivial = non-empty input.",
		Assumptions: []string{
			"numeric values are JSON numbers; numeric text and booleans are not numeric (booleans are generated, numeric text is not)",
			"percentiles are checked for order and range only (t-digest is approximate); with no numeric value the quantile is unspecified",
			"the histogram interval is an unsigned integer on the wire (1, 2, 5, 10 generated; 0 belongs to C06/C07); empty buckets may be emitted",
		},
		BatchSize:   120,
		CaseTimeout: 120 * time.Second,
		Gen:         c19Gen,
		Exec:        c19Exec,
	})
}
