package main

import (
	"context"
	"encoding/json"
	"fmt"
	"os"
	"path/filepath"
	"runtime"
	"strings"
	"time"

	"github.com/bmeg/grip/engine/pipeline"
	"github.com/bmeg/grip/gdbi"
	"github.com/bmeg/grip/gripql"

	"verifharness/fw"
	"verifharness/gq"
)

// C07 – traversals terminate for any data volume and stop when cancelled.

type c07Case struct {
	Shape  string            `json:"shape"` // cycle star pairs
	N      int               `json:"n"`
	Stmts  []json.RawMessage `json:"stmts"`
	Name   string            `json:"name"`
	Expect int               `json:"expect"`           // closed-form number of rows (-1: not judged)
	Cancel int               `json:"cancel,omitempty"` // cancel the context after this many rows (-1 = never, 0 = before the first)
}

var c07Sizes = []int{0, 1, 99, 100, 101, 999, 1000, 1001, 2500, 4999, 5000, 5001, 12000}

type c07Step struct {
	Name   string
	Stmts  []*gripql.GraphStatement
	Factor int  // rows out per row in, on a cycle whose vertices carry l=[1,2,3]
	ToEdge bool // leaves the traveler on an edge
	FromV  bool // needs a vertex
	Term   bool // terminal: nothing can follow
	Fixed  int  // number of rows out regardless of input (aggregations), if > 0
}

func c07Steps() []c07Step {
	q := gripql.NewQuery()
	agg := func(name string, a ...*gripql.Aggregate) *gripql.Query { return q.Aggregate(a) }
	cnt := &gripql.Aggregate{Name: "c", Aggregation: &gripql.Aggregate_Count{Count: &gripql.CountAggregation{}}}
	term := &gripql.Aggregate{Name: "t", Aggregation: &gripql.Aggregate_Term{Term: &gripql.TermAggregation{Field: "_label"}}}
	typ := &gripql.Aggregate{Name: "y", Aggregation: &gripql.Aggregate_Type{Type: &gripql.TypeAggregation{Field: "x"}}}
	return []c07Step{
		{Name: "out()", Stmts: q.Out().Statements, Factor: 1},
		{Name: "in()", Stmts: q.In().Statements, Factor: 1},
		{Name: "both()", Stmts: q.Both().Statements, Factor: 2},
		{Name: "outE()", Stmts: q.OutE().Statements, Factor: 1, ToEdge: true, FromV: true},
		{Name: "inE()", Stmts: q.InE().Statements, Factor: 1, ToEdge: true, FromV: true},
		{Name: "bothE()", Stmts: q.BothE().Statements, Factor: 2, ToEdge: true, FromV: true},
		{Name: "as(a).out().select(a)", Stmts: q.As("a").Out().Select("a").Statements, Factor: 1, FromV: true},
		{Name: "unwind(l)", Stmts: []*gripql.GraphStatement{{Statement: &gripql.GraphStatement_Unwind{Unwind: "l"}}}, Factor: 3, FromV: true},
		{Name: "has(gte(x,0))", Stmts: q.Has(cond("GTE", "x", 0.0)).Statements, Factor: 1, FromV: true},
		{Name: "fields(x)", Stmts: q.Fields("x").Statements, Factor: 1},
		{Name: "distinct()", Stmts: q.Distinct().Statements, Factor: -1},
		{Name: "count()", Stmts: q.Count().Statements, Term: true, Fixed: 1},
		{Name: "aggregate(count)", Stmts: agg("c", cnt).Statements, Term: true, Fixed: 1},
		{Name: "aggregate(count,term,type)", Stmts: agg("ctt", cnt, term, typ).Statements, Term: true, Fixed: -3},
		{Name: "render(_gid)", Stmts: []*gripql.GraphStatement{renderStmt("_gid")}, Factor: 1, Term: true},
		{Name: "path()", Stmts: []*gripql.GraphStatement{{Statement: &gripql.GraphStatement_Path{}}}, Factor: 1, Term: true},
	}
}

func c07Gen(g *fw.GenCtx) []fw.Case {
	var cases []fw.Case
	steps := c07Steps()
	q := gripql.NewQuery()
	sizes := c07Sizes
	add := func(shape string, n int, name string, stmts []*gripql.GraphStatement, expect, cancel int) {
		cases = append(cases, fw.MkCase("run", c07Case{Shape: shape, N: n, Stmts: gq.StmtJSON(stmts), Name: name, Expect: expect, Cancel: cancel}))
	}
	// expected rows of V().s1[.s2] on a cycle of n vertices
	expect := func(n int, seq []c07Step) int {
		rows := n
		distinctRows := n
		lIsList := true // the current element still carries the 3-element list l
		for _, s := range seq {
			switch {
			case s.Fixed == 1:
				return 1
			case s.Fixed == -3:
				// count (1) + term buckets on _label (1 label, 0 when empty) + type buckets (1 type, 0 when empty)
				if rows == 0 {
					return 1
				}
				return 3
			case s.Factor == -1:
				if rows > distinctRows {
					rows = distinctRows
				}
			case s.Name == "unwind(l)":
				if lIsList {
					rows *= 3
				}
				lIsList = false
			default:
				rows *= s.Factor
			}
			switch {
			case s.ToEdge || s.Name == "fields(x)":
				lIsList = false
			case s.Name == "out()" || s.Name == "in()" || s.Name == "both()":
				lIsList = true
			}
		}
		return rows
	}
	k := 0
	for _, n := range sizes {
		for _, s1 := range steps {
			k++
			if g.Quick() && n > 2500 && !(n == 5001 && s1.Factor == 2) {
				continue
			}
			if g.Quick() && n > 101 && k%2 == 0 && s1.Factor != 2 {
				continue
			}
			add("cycle", n, "V()."+s1.Name, flat(q.V().Statements, s1.Stmts), expect(n, []c07Step{s1}), -1)
			if s1.Term {
				continue
			}
			for _, s2 := range steps {
				if s1.ToEdge && s2.FromV {
					continue
				}
				k++
				if g.Quick() && (n > 1001 || (k%6 != 0 && n > 1)) && !(n == 2500 && s1.Factor == 2 && s2.Factor == 2) {
					continue
				}
				if !g.Quick() && n > 5001 && k%2 == 0 {
					continue
				}
				add("cycle", n, "V()."+s1.Name+"."+s2.Name, flat(q.V().Statements, s1.Stmts, s2.Stmts), expect(n, []c07Step{s1, s2}), -1)
			}
		}
		// star: hub with n spokes in both directions; pairs: n disjoint edges
		if !(g.Quick() && n > 2500) {
			add("star", n, "V(hub).out()", q.V("hub").Out().Statements, n, -1)
			add("star", n, "V().both()", q.V().Both().Statements, 4*n, -1)
			add("star", n, "V().both().both().count()", q.V().Both().Both().Count().Statements, 1, -1)
			add("star", n, "V(hub).outE().out().in()", q.V("hub").OutE().Out().In().Statements, n, -1)
			add("pairs", n, "V().out()", q.V().Out().Statements, n, -1)
			add("pairs", n, "E().both()", q.E().Both().Statements, 2*n, -1)
			add("pairs", n, "V().limit(5).out()", q.V().Limit(5).Out().Statements, -1, -1)
			add("pairs", n, "V().both().limit(7)", q.V().Both().Limit(7).Statements, min(7, 2*n), -1)
			add("pairs", n, "V().both().range(3,10).count()", q.V().Both().Range(3, 10).Count().Statements, 1, -1)
			add("pairs", n, "V().distinct(_label).both()", q.V().Distinct("_label").Both().Statements, -1, -1)
		}
		// numeric aggregations over a field that is now and then text or missing
		if n >= 999 && !(g.Quick() && n > 2500) {
			pct := &gripql.Aggregate{Name: "p", Aggregation: &gripql.Aggregate_Percentile{Percentile: &gripql.PercentileAggregation{Field: "y", Percents: []float64{50}}}}
			hist := &gripql.Aggregate{Name: "h", Aggregation: &gripql.Aggregate_Histogram{Histogram: &gripql.HistogramAggregation{Field: "y", Interval: 5}}}
			trm := &gripql.Aggregate{Name: "t", Aggregation: &gripql.Aggregate_Term{Term: &gripql.TermAggregation{Field: "y"}}}
			cntA := &gripql.Aggregate{Name: "c", Aggregation: &gripql.Aggregate_Count{Count: &gripql.CountAggregation{}}}
			add("cycle", n, "V().aggregate(percentile(y))", q.V().Aggregate([]*gripql.Aggregate{pct}).Statements, 1, -1)
			add("cycle", n, "V().out().aggregate(percentile(y))", q.V().Out().Aggregate([]*gripql.Aggregate{pct}).Statements, 1, -1)
			add("cycle", n, "V().out().aggregate(percentile,histogram,term,count over y)", q.V().Out().Aggregate([]*gripql.Aggregate{pct, hist, trm, cntA}).Statements, -1, -1)
			add("cycle", n, "V().both().aggregate(histogram(y))", q.V().Both().Aggregate([]*gripql.Aggregate{hist}).Statements, -1, -1)
		}
		// a satisfied limit behind a step that has thousands of rows left to deliver: the
		// rows are the first k, the stream closes, and the steps before the limit end too
		if n == 12000 || (!g.Quick() && n >= 999) {
			add("star", n, "V(hub).out().limit(3)", q.V("hub").Out().Limit(3).Statements, 3, -1)
			add("star", n, "V(hub).outE().limit(3)", q.V("hub").OutE().Limit(3).Statements, 3, -1)
			add("star", n, "V(hub).both().range(2,5).count()", q.V("hub").Both().Range(2, 5).Count().Statements, 1, -1)
			add("star", n, "V(hub).out().in().limit(1)", q.V("hub").Out().In().Limit(1).Statements, 1, -1)
			add("star", n, "V(hub).outE().out().limit(10).count()", q.V("hub").OutE().Out().Limit(10).Count().Statements, 1, -1)
		}
		// cancellation while the consumer keeps draining
		for _, cancelAt := range []int{0, 1, 100, 5001} {
			if cancelAt > 2*n && cancelAt > 1 {
				continue
			}
			if g.Quick() && n > 2500 && n != 5001 {
				continue
			}
			add("cycle", n, fmt.Sprintf("V().both().both() cancelled after %d rows", cancelAt), q.V().Both().Both().Statements, -1, cancelAt)
			add("cycle", n, fmt.Sprintf("V().out().distinct().outE() cancelled after %d rows", cancelAt), q.V().Out().Distinct().OutE().Statements, -1, cancelAt)
		}
	}
	// clients of a live server that leave in the middle of a large result
	for _, n := range []int{3000, 20000} {
		if g.Quick() && n < 20000 {
			continue
		}
		for _, leave := range []int{0, 10} {
			cases = append(cases, fw.MkCase("server", c07Case{Shape: "star", N: n, Stmts: gq.StmtJSON(q.V("hub").Out().Statements), Name: "V(hub).out()", Expect: -1, Cancel: leave}))
			cases = append(cases, fw.MkCase("server", c07Case{Shape: "star", N: n, Stmts: gq.StmtJSON(q.V("hub").Distinct("_gid").Out().Statements), Name: "V(hub).distinct(_gid).out()", Expect: -1, Cancel: leave}))
		}
	}
	return cases
}

type c07Env struct {
	db     gdbi.GraphDB
	graphs map[string]gdbi.GraphInterface
}

func c07Graph(env *c07Env, shape string, n int) gdbi.GraphInterface {
	name := fmt.Sprintf("%s%d", shape, n)
	if gi, ok := env.graphs[name]; ok {
		return gi
	}
	env.db.AddGraph(name)
	gi, _ := env.db.Graph(name)
	var vs []*gdbi.Vertex
	var es []*gdbi.Edge
	vtx := func(id string, i int) *gdbi.Vertex {
		d := map[string]interface{}{"x": float64(i), "l": []interface{}{1.0, 2.0, 3.0}}
		// y: mostly numbers, now and then text or missing (aggregations must keep draining past those rows)
		switch i % 50 {
		case 7:
			d["y"] = "text"
		case 9:
		default:
			d["y"] = float64(i % 17)
		}
		return &gdbi.Vertex{ID: id, Label: "L", Data: d, Loaded: true}
	}
	switch shape {
	case "cycle":
		for i := 0; i < n; i++ {
			vs = append(vs, vtx(fmt.Sprintf("v%d", i), i))
			es = append(es, &gdbi.Edge{ID: fmt.Sprintf("e%d", i), Label: "r", From: fmt.Sprintf("v%d", i), To: fmt.Sprintf("v%d", (i+1)%n), Loaded: true})
		}
	case "star":
		vs = append(vs, vtx("hub", 0))
		for i := 0; i < n; i++ {
			vs = append(vs, vtx(fmt.Sprintf("s%d", i), i))
			es = append(es, &gdbi.Edge{ID: fmt.Sprintf("o%d", i), Label: "r", From: "hub", To: fmt.Sprintf("s%d", i), Loaded: true},
				&gdbi.Edge{ID: fmt.Sprintf("i%d", i), Label: "r", From: fmt.Sprintf("s%d", i), To: "hub", Loaded: true})
		}
	case "pairs":
		for i := 0; i < n; i++ {
			vs = append(vs, vtx(fmt.Sprintf("a%d", i), i), vtx(fmt.Sprintf("b%d", i), i))
			es = append(es, &gdbi.Edge{ID: fmt.Sprintf("e%d", i), Label: "r", From: fmt.Sprintf("a%d", i), To: fmt.Sprintf("b%d", i), Loaded: true})
		}
	}
	for i := 0; i < len(vs); i += 2000 {
		gi.AddVertex(vs[i:min(i+2000, len(vs))])
	}
	for i := 0; i < len(es); i += 2000 {
		gi.AddEdge(es[i:min(i+2000, len(es))])
	}
	env.graphs[name] = gi
	return gi
}

// engineGoroutines counts goroutines that are still inside the query engine.
func engineGoroutines() (int, string) {
	n, gs := fw.GripGoroutineCount("badger", "ristretto", "y.(*WaterMark)", "kvi/badgerdb.NewKVInterface", "fw.(*Worker)")
	var sb strings.Builder
	cnt := 0
	for _, g := range gs {
		engine := false
		for _, f := range g.Frames {
			if strings.Contains(f, "bmeg/grip/engine/") || strings.Contains(f, "bmeg/grip/kvgraph.(*KVInterfaceGDB)") || strings.Contains(f, "bmeg/grip/gdbi.") {
				engine = true
			}
		}
		if engine {
			cnt++
			if cnt <= 4 {
				sb.WriteString(g.Text + "\n")
			}
		}
	}
	_ = n
	return cnt, sb.String()
}

// c07Server: a client of a live server reads a few rows of a large result and goes
// away; the handler, the pipeline behind it and its temporary store must be released.
func c07Server(w *fw.Worker, cc c07Case) fw.Result {
	type srvEnv struct {
		ls     *gq.LiveServer
		loaded map[string]bool
	}
	env := w.State("c07srv", func() interface{} {
		ls, err := gq.StartServer(w.NewDir("c07srv"), gq.ServerOpts{NoJobs: true})
		if err != nil {
			panic(err)
		}
		return &srvEnv{ls: ls, loaded: map[string]bool{}}
	}).(*srvEnv)
	ctx := context.Background()
	name := fmt.Sprintf("star%d", cc.N)
	if !env.loaded[name] {
		if _, err := env.ls.E.AddGraph(ctx, &gripql.GraphID{Graph: name}); err != nil {
			return fw.InconclusiveR("AddGraph: " + err.Error())
		}
		gi, err := env.ls.DB.Graph(name)
		if err != nil {
			return fw.InconclusiveR("Graph: " + err.Error())
		}
		vs := []*gdbi.Vertex{{ID: "hub", Label: "L", Data: map[string]interface{}{"x": 0.0}, Loaded: true}}
		var es []*gdbi.Edge
		for i := 0; i < cc.N; i++ {
			vs = append(vs, &gdbi.Vertex{ID: fmt.Sprintf("s%d", i), Label: "L", Data: map[string]interface{}{"x": float64(i)}, Loaded: true})
			es = append(es, &gdbi.Edge{ID: fmt.Sprintf("o%d", i), Label: "r", From: "hub", To: fmt.Sprintf("s%d", i), Loaded: true})
		}
		for i := 0; i < len(vs); i += 2000 {
			gi.AddVertex(vs[i:min(i+2000, len(vs))])
		}
		for i := 0; i < len(es); i += 2000 {
			gi.AddEdge(es[i:min(i+2000, len(es))])
		}
		env.loaded[name] = true
	}
	stmts := gq.StmtsFromJSON(cc.Stmts)
	detail := map[string]interface{}{"shape": "star over a live server", "n": cc.N, "traversal": cc.Name, "rows_read_before_leaving": cc.Cancel}
	base, _ := engineGoroutines()
	workdir := env.ls.Conf.Server.WorkDir
	before, _ := filepath.Glob(filepath.Join(workdir, "*", "kvTmp*"))
	before2, _ := filepath.Glob(filepath.Join(workdir, "kvTmp*"))
	cctx, cancel := context.WithCancel(ctx)
	st, err := env.ls.Q.Traversal(cctx, &gripql.GraphQuery{Graph: name, Query: stmts})
	if err != nil {
		cancel()
		return fw.InconclusiveR("Traversal: " + err.Error())
	}
	rows := 0
	for rows < cc.Cancel {
		if _, err := st.Recv(); err != nil {
			break
		}
		rows++
	}
	cancel() // the client goes away
	res := fw.HeldR(true, "")
	res.Count("rows", int64(rows))
	res.AddSet("sizes", fmt.Sprint(cc.N))
	left, stacks := 0, ""
	for i := 0; i < 600; i++ {
		left, stacks = engineGoroutines()
		if left <= base {
			break
		}
		time.Sleep(10 * time.Millisecond)
	}
	if left > base {
		// state, not time: the goroutines that are left are parked and do not move any more
		time.Sleep(3 * time.Second)
		left2, stacks2 := engineGoroutines()
		if left2 > base && stacks2 == stacks {
			detail["stacks"] = stacks
			return fw.ViolatedR("leak:server-cancel:"+stepKey(stmts), fmt.Sprintf("%s over a live server, client left after %d rows: %d engine goroutines stay parked behind the abandoned result stream", cc.Name, rows, left2-base), detail)
		}
		if left2 > base {
			return fw.InconclusiveR(fmt.Sprintf("%d engine goroutines still running after the client left", left2-base))
		}
	}
	var after, after2 []string
	for i := 0; i < 900; i++ { // the store is removed by the pipeline's goroutine right after it ends
		after, _ = filepath.Glob(filepath.Join(workdir, "*", "kvTmp*"))
		after2, _ = filepath.Glob(filepath.Join(workdir, "kvTmp*"))
		if len(after)+len(after2) <= len(before)+len(before2) {
			break
		}
		time.Sleep(10 * time.Millisecond)
	}
	if len(after)+len(after2) > len(before)+len(before2) {
		return fw.ViolatedR("leak:server-cancel:tempdir", fmt.Sprintf("%s over a live server, client left after %d rows: a temporary store stays in the work directory", cc.Name, rows), detail)
	}
	res.Count("leak_checks", 1)
	return res
}

func c07Exec(w *fw.Worker, c fw.Case) fw.Result {
	var cc c07Case
	c.Decode(&cc)
	if c.Kind == "server" {
		return c07Server(w, cc)
	}
	env := w.State("c07", func() interface{} {
		db, err := gq.OpenBadger(w.NewDir("c07db"))
		if err != nil {
			panic(err)
		}
		return &c07Env{db: db, graphs: map[string]gdbi.GraphInterface{}}
	}).(*c07Env)
	gi := c07Graph(env, cc.Shape, cc.N)
	stmts := gq.StmtsFromJSON(cc.Stmts)
	pipe, err := gi.Compiler().Compile(stmts, nil)
	if err != nil {
		if c.Witness != "" {
			return fw.HeldR(true, "rejected-at-compile-time") // a regression witness that is now refused
		}
		return fw.InconclusiveR("compile: " + err.Error())
	}
	base, _ := engineGoroutines()
	workdir := w.NewDir("work")
	ctx, cancel := context.WithCancel(context.Background())
	defer cancel()
	if cc.Cancel == 0 {
		cancel()
	}
	rows := 0
	bound := 10*maxInt(cc.Expect, 16*cc.N) + 10000
	detail := map[string]interface{}{"shape": cc.Shape, "n": cc.N, "traversal": cc.Name, "expected_rows": cc.Expect}
	for range pipeline.Run(ctx, pipe, workdir) {
		rows++
		w.Progress.Add(1)
		if cc.Cancel > 0 && rows == cc.Cancel {
			cancel()
		}
		if rows > bound {
			r := fw.ViolatedR("divergence:"+stepKey(stmts), fmt.Sprintf("%s on %s(%d) streamed more than %d rows and is still going", cc.Name, cc.Shape, cc.N, bound), detail)
			r.ExitAfter = true
			return r
		}
	}
	// closure reached (otherwise the watchdog + deadlock certificate take over)
	res := fw.HeldR(cc.N > 0, "")
	res.Count("rows", int64(rows))
	res.AddSet("sizes", fmt.Sprint(cc.N))
	if cc.Cancel < 0 && cc.Expect >= 0 && rows != cc.Expect {
		return fw.ViolatedR("count:"+stepKey(stmts), fmt.Sprintf("%s on %s(%d) returned %d rows, the closed form gives %d", cc.Name, cc.Shape, cc.N, rows, cc.Expect), detail)
	}
	// release: goroutines and temporary storage return to the baseline
	left, stacks := 0, ""
	for i := 0; i < 400; i++ {
		left, stacks = engineGoroutines()
		if left <= base {
			break
		}
		runtime.Gosched()
		time.Sleep(5 * time.Millisecond)
	}
	if left > base {
		detail["stacks"] = stacks
		return fw.ViolatedR("leak:goroutines:"+stepKey(stmts), fmt.Sprintf("%s on %s(%d) (cancel=%d): %d engine goroutines are still alive after the result stream closed", cc.Name, cc.Shape, cc.N, cc.Cancel, left-base), detail)
	}
	if m, _ := filepath.Glob(filepath.Join(workdir, "kvTmp*")); len(m) > 0 {
		return fw.ViolatedR("leak:tempdir:"+stepKey(stmts), fmt.Sprintf("%s on %s(%d): temporary store %s was not removed", cc.Name, cc.Shape, cc.N, m[0]), detail)
	}
	os.RemoveAll(workdir)
	res.Count("leak_checks", 1)
	return res
}

func maxInt(a, b int) int {
	if a > b {
		return a
	}
	return b
}

func init() {
	fw.Register(&fw.Property{
		ID:   "C07",
		Rule: "graph shapes with closed-form answers (cycle, star with spokes in both directions, disjoint pairs) at N in {0,1,99,100,101,999,1000,1001,2500,4999,5000,5001,12000} vertices/spokes - several multiples of every internal capacity (100, 1000, 5000); traversals: every single step and every ordered pair of 16 fan-out/fan-in steps (out, in, both, outE, inE, bothE, as..select, unwind on a 3-list, has, fields, distinct, count, aggregate with 1 and 3 aggregations, render, path) after V(), plus limit/range mid-stream and star/pairs traversals, numeric aggregations over a field that is text or missing in some rows, and limit/range right behind a hub with 12000 spokes (the steps before a satisfied limit must end as well); cancellation of the context after 0, 1, 100, 5001 rows while the consumer keeps draining; a gRPC client of a live server that leaves after 0 / 10 rows of a 20000-row result. Quick covers sizes <= 2500 (a rotating sixth of the step pairs) plus the 5001 cases of the fan-out steps; thorough covers everything. Oracle: the result channel closes (a non-closing run is a violation only with a deadlock certificate: every engine goroutine blocked on channel operations, identical in two snapshots), the row count equals the closed form, fewer than 10x the bound rows are streamed, and afterwards no engine goroutine and no kvTmp* directory is left. Non-trivial = N > 0.",
		Assumptions: []string{
			"'always finishes' is restated as bounded progress: closure within the explored sizes; a watchdog firing without a certificate is inconclusive",
			"'any data volume' is explored up to 12000 rows per step, not beyond",
		},
		BatchSize:   30,
		CaseTimeout: 150 * time.Second,
		Gen:         c07Gen,
		Exec:        c07Exec,
		Sample: func(c fw.Case, r fw.Result) interface{} {
			var cc c07Case
			c.Decode(&cc)
			return map[string]interface{}{"shape": cc.Shape, "n": cc.N, "traversal": cc.Name, "expected_rows": cc.Expect, "cancel_after": cc.Cancel, "rows": r.Counters["rows"]}
		},
	})
}
