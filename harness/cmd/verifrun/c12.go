package main

import (
	"context"
	"encoding/json"
	"fmt"
	"math/rand"
	"runtime"
	"strings"
	"time"

	"github.com/bmeg/grip/engine/core"
	"github.com/bmeg/grip/gdbi"
	"github.com/bmeg/grip/gripql"
	"google.golang.org/protobuf/types/known/structpb"

	"verifharness/fw"
	"verifharness/gq"
	"verifharness/model"
	"verifharness/mon"
)

// C12 – mark/jump loops are exact and terminate under every schedule.

type c12Case struct {
	Stmts   []json.RawMessage `json:"stmts"`
	Name    string            `json:"name"`
	Graph   string            `json:"graph"`
	Procs   int               `json:"procs"`
	Profile mon.Profile       `json:"profile"`
	Rep     int               `json:"rep"`
}

func c12Graphs() map[string]*tGraph {
	out := map[string]*tGraph{}
	mk := func(name string, n int, edges [][2]int) {
		g := &tGraph{Name: name}
		for i := 0; i < n; i++ {
			lab := "P"
			if i%3 == 2 {
				lab = "Q"
			}
			g.V = append(g.V, mv(fmt.Sprintf("n%d", i), lab, M{"p": float64(i % 4)}))
		}
		for i, e := range edges {
			lab := "r"
			if i%4 == 3 {
				lab = "s"
			}
			g.E = append(g.E, me(fmt.Sprintf("e%d", i), lab, fmt.Sprintf("n%d", e[0]), fmt.Sprintf("n%d", e[1]), nil))
		}
		out[name] = g
	}
	var chain, cycle, tree, star [][2]int
	for i := 0; i < 7; i++ {
		chain = append(chain, [2]int{i, i + 1})
	}
	for i := 0; i < 5; i++ {
		cycle = append(cycle, [2]int{i, (i + 1) % 5})
	}
	for i := 0; i < 15; i++ {
		tree = append(tree, [2]int{i, 2*i + 1}, [2]int{i, 2*i + 2})
	}
	for i := 1; i < 9; i++ {
		star = append(star, [2]int{0, i}, [2]int{i, 0})
	}
	// the same tree without any property on its vertices (a mark on such a vertex has an empty data map)
	bare := &tGraph{Name: "baretree"}
	for i := 0; i < 31; i++ {
		bare.V = append(bare.V, mv(fmt.Sprintf("n%d", i), "P", nil))
	}
	for i := 0; i < 15; i++ {
		bare.E = append(bare.E, me(fmt.Sprintf("e%d", 2*i), "r", fmt.Sprintf("n%d", i), fmt.Sprintf("n%d", 2*i+1), nil), me(fmt.Sprintf("e%d", 2*i+1), "r", fmt.Sprintf("n%d", i), fmt.Sprintf("n%d", 2*i+2), nil))
	}
	out["baretree"] = bare
	mk("chain", 8, chain)
	mk("cycle", 5, cycle)
	mk("tree", 31, tree)
	mk("star", 9, star)
	for _, k := range []int{4, 5, 6} {
		var kk [][2]int
		for i := 0; i < k; i++ {
			for j := 0; j < k; j++ {
				if i != j {
					kk = append(kk, [2]int{i, j})
				}
			}
		}
		mk(fmt.Sprintf("K%d", k), k, kk)
	}
	return out
}

type c12Prog struct {
	Name  string
	Stmts []*gripql.GraphStatement
}

func gsMark(m string) *gripql.GraphStatement {
	return &gripql.GraphStatement{Statement: &gripql.GraphStatement_Mark{Mark: m}}
}
func gsJump(m string, e *gripql.HasExpression, emit bool) *gripql.GraphStatement {
	return &gripql.GraphStatement{Statement: &gripql.GraphStatement_Jump{Jump: &gripql.Jump{Mark: m, Expression: e, Emit: emit}}}
}
func gsSet(k string, v interface{}) *gripql.GraphStatement {
	val, _ := structpb.NewValue(v)
	return &gripql.GraphStatement{Statement: &gripql.GraphStatement_Set{Set: &gripql.Set{Key: k, Value: val}}}
}
func gsInc(k string, v int32) *gripql.GraphStatement {
	return &gripql.GraphStatement{Statement: &gripql.GraphStatement_Increment{Increment: &gripql.Increment{Key: k, Value: v}}}
}

func c12Programs() []c12Prog {
	q := gripql.NewQuery()
	var out []c12Prog
	bodies := []seqDef{
		sq("out()", q.Out()), sq("out(r)", q.Out("r")), sq("in()", q.In()), sq("outE().out()", q.OutE().Out()), sq("out().hasLabel(P)", q.Out().HasLabel("P")),
		sq("out().as(b)", q.Out().As("b")), sq("out().fields(p)", q.Out().Fields("p")), sq("outE(r).in().out()", q.OutE("r").In().Out()),
	}
	conds := []struct {
		n string
		e *gripql.HasExpression
	}{{"nil", nil}, {"eq(_label,P)", cond("EQ", "_label", "P")}, {"gt(p,0)", cond("GT", "p", 0.0)}}
	tails := []seqDef{{"", nil}, sq("count()", q.Count()), {"render", []*gripql.GraphStatement{renderStmt(M{"g": "_gid", "c": "$s.c"})}}, sq("has(gt(p,1))", q.Has(cond("GT", "p", 1.0)))}
	starts := []seqDef{sq("V()", q.V()), sq("V(n0)", q.V("n0")), sq("V(n0,n1)", q.V("n0", "n1"))}
	n := 0
	for _, body := range bodies {
		for _, cd := range conds {
			for _, emit := range []bool{true, false} {
				for K := 0; K <= 4; K++ {
					n++
					// rotate starts and tails so that the product stays small but every value is used with every body
					st := starts[n%len(starts)]
					tl := tails[(n/2)%len(tails)]
					if !emit && tl.Name == "render" {
						tl = tails[0]
					}
					prog := flat(st.Stmts, []*gripql.GraphStatement{gsSet("c", 0.0), mkStmt(q.As("s")), gsMark("m")}, body.Stmts,
						[]*gripql.GraphStatement{gsInc("$s.c", 1), mkStmt(q.Has(cond("LT", "$s.c", float64(K)))), gsJump("m", cd.e, emit)}, tl.Stmts)
					out = append(out, c12Prog{fmt.Sprintf("%s.set(c,0).as(s).mark(m).%s.increment($s.c).has(lt($s.c,%d)).jump(m,%s,%v).%s", st.Name, body.Name, K, cd.n, emit, tl.Name), prog})
				}
			}
		}
	}
	// two jumps to the same mark
	for K := 1; K <= 3; K++ {
		prog := flat(q.V("n0").Statements, []*gripql.GraphStatement{gsSet("c", 0.0), mkStmt(q.As("s")), gsMark("m")}, q.Out().Statements,
			[]*gripql.GraphStatement{gsInc("$s.c", 1), mkStmt(q.Has(cond("LT", "$s.c", float64(K)))), gsJump("m", cond("EQ", "_label", "P"), true)}, q.Out().Statements,
			[]*gripql.GraphStatement{gsInc("$s.c", 1), mkStmt(q.Has(cond("LT", "$s.c", float64(K+1)))), gsJump("m", cond("EQ", "_label", "Q"), true)})
		out = append(out, c12Prog{fmt.Sprintf("two-jumps(K=%d)", K), prog})
	}
	// a jump placed before its mark (forward jump) plus a loop
	for K := 1; K <= 2; K++ {
		prog := flat(q.V().Statements, []*gripql.GraphStatement{gsSet("c", 0.0), mkStmt(q.As("s")), gsJump("m", cond("EQ", "_label", "Q"), true), mkStmt(q.HasLabel("P")), gsMark("m")}, q.Out().Statements,
			[]*gripql.GraphStatement{gsInc("$s.c", 1), mkStmt(q.Has(cond("LT", "$s.c", float64(K)))), gsJump("m", nil, true)}, q.Count().Statements)
		out = append(out, c12Prog{fmt.Sprintf("forward-jump(K=%d)", K), prog})
	}
	// the counter is created by the first increment (no set) on a mark
	for K := 1; K <= 4; K++ {
		for _, emit := range []bool{true, false} {
			prog := flat(q.V("n0").Statements, []*gripql.GraphStatement{mkStmt(q.As("s")), gsMark("m")}, q.Out().Statements,
				[]*gripql.GraphStatement{gsInc("$s.c", 1), mkStmt(q.Has(cond("LT", "$s.c", float64(K)))), gsJump("m", nil, emit)})
			out = append(out, c12Prog{fmt.Sprintf("V(n0).as(s).mark(m).out().increment($s.c).has(lt($s.c,%d)).jump(m,nil,%v) [no set]", K, emit), prog})
		}
	}
	// no jump at all, and a mark nobody jumps to
	out = append(out, c12Prog{"mark-without-jump", flat(q.V().Statements, []*gripql.GraphStatement{gsMark("m")}, q.Out().Count().Statements)})
	return out
}

var c12Sites = []string{"mark.fwd_jump", "mark.fwd_input", "mark.sig_send", "mark.close", "jump.close", "jump.sig_fwd", "jump.to_queue", "queue.input_closed", "queue.out"}

func c12Profiles(seed int64) []mon.Profile {
	ps := []mon.Profile{{Kind: "none"}, {Kind: "yield"}, {Kind: "random", P: 0.2, Micros: 50, Seed: seed}, {Kind: "random", P: 0.02, Micros: 2000, Seed: seed + 1}}
	for _, s := range c12Sites {
		ps = append(ps, mon.Profile{Kind: "sleep", Site: s, Micros: 300})
	}
	ps = append(ps, mon.Profile{Kind: "sleep", Site: "queue.out", Micros: 3000}, mon.Profile{Kind: "sleep", Site: "jump.close", Micros: 20000})
	return ps
}

func c12Gen(g *fw.GenCtx) []fw.Case {
	var cases []fw.Case
	progs := c12Programs()
	graphs := []string{"chain", "cycle", "tree", "star", "K4", "K5", "baretree"}
	profiles := c12Profiles(g.Seed)
	procs := []int{1, 2, 4, 16}
	rng := rand.New(rand.NewSource(g.Seed*29 + 17))
	reps := g.Pick(1, 6)
	for pi, p := range progs {
		for gi, gr := range graphs {
			// quick: each (program, graph) under 3 (profile, GOMAXPROCS) combinations chosen by rotation;
			// thorough: every profile x 2 GOMAXPROCS values x repetitions
			var combos [][2]int
			if g.Quick() {
				if (pi+gi)%3 != 0 {
					continue
				}
				for k := 0; k < 3; k++ {
					combos = append(combos, [2]int{(pi*7 + gi*3 + k*5) % len(profiles), (pi + gi + k) % len(procs)})
				}
			} else {
				for pf := range profiles {
					combos = append(combos, [2]int{pf, (pi + gi + pf) % len(procs)}, [2]int{pf, (pi + gi + pf + 2) % len(procs)})
				}
			}
			for _, cb := range combos {
				for r := 0; r < reps; r++ {
					prof := profiles[cb[0]]
					if prof.Kind == "random" {
						prof.Seed = rng.Int63()
					}
					cases = append(cases, fw.MkCase("loop", c12Case{Stmts: gq.StmtJSON(p.Stmts), Name: p.Name, Graph: gr, Procs: procs[cb[1]], Profile: prof, Rep: r}))
				}
			}
		}
	}
	// many travelers in flight: crosses the queue (1000) and channel (50, 100, 5000) capacities
	q := gripql.NewQuery()
	for _, K := range []int{4, 5} {
		big := flat(q.V().Statements, []*gripql.GraphStatement{gsSet("c", 0.0), mkStmt(q.As("s")), gsMark("m")}, q.Out().Statements,
			[]*gripql.GraphStatement{gsInc("$s.c", 1), mkStmt(q.Has(cond("LT", "$s.c", float64(K)))), gsJump("m", nil, true)}, q.Count().Statements)
		for i, pf := range profiles {
			if g.Quick() && i%3 != 0 {
				continue
			}
			gr := "K5"
			if K == 5 && !g.Quick() {
				gr = "K6"
			}
			cases = append(cases, fw.MkCase("loop", c12Case{Stmts: gq.StmtJSON(big), Name: fmt.Sprintf("big(K=%d)", K), Graph: gr, Procs: procs[i%4], Profile: pf}))
		}
	}
	// more travelers in the cycle than every buffer of the loop together (queue, 4 channels of 5000):
	// 6*5^5 = 18750 jump back in the last pass and fan out to 93750
	huge := flat(q.V().Statements, []*gripql.GraphStatement{gsSet("c", 0.0), mkStmt(q.As("s")), gsMark("m")}, q.Out().Statements,
		[]*gripql.GraphStatement{gsInc("$s.c", 1), mkStmt(q.Has(cond("LT", "$s.c", 6.0))), gsJump("m", nil, true)}, q.Count().Statements)
	for i, pf := range profiles {
		if pf.Kind != "none" && (g.Quick() || pf.Kind != "yield") {
			continue
		}
		cases = append(cases, fw.MkCase("loop", c12Case{Stmts: gq.StmtJSON(huge), Name: "huge(K=6)", Graph: "K6", Procs: 16, Profile: pf, Rep: i}))
	}
	return cases
}

type c12Env struct {
	db     gdbi.GraphDB
	graphs map[string]gdbi.GraphInterface
	models map[string]*model.Graph
	rec    *mon.Recorder
}

func c12Setup(w *fw.Worker) *c12Env {
	return w.State("c12", func() interface{} {
		db, err := gq.OpenBadger(w.NewDir("c12db"))
		if err != nil {
			panic(err)
		}
		env := &c12Env{db: db, graphs: map[string]gdbi.GraphInterface{}, models: map[string]*model.Graph{}, rec: mon.Install()}
		for name, tg := range c12Graphs() {
			env.graphs[name] = loadTGraph(db, name, tg)
			env.models[name] = tg.Model()
		}
		return env
	}).(*c12Env)
}

var travelerSites = map[string]bool{"mark.fwd_jump": true, "mark.fwd_input": true, "jump.to_queue": true, "queue.in": true, "queue.out": true, "jump.emit": true}

func c12Exec(w *fw.Worker, c fw.Case) fw.Result {
	var cc c12Case
	c.Decode(&cc)
	env := c12Setup(w)
	stmts := gq.StmtsFromJSON(cc.Stmts)
	want, err := model.EvalLoop(env.models[cc.Graph], stmts, 5_000_000)
	if err != nil {
		return fw.InconclusiveR(err.Error())
	}
	old := runtime.GOMAXPROCS(cc.Procs)
	defer runtime.GOMAXPROCS(old)
	env.rec.Reset()
	mon.InstallProfile(cc.Profile)
	defer mon.InstallProfile(mon.Profile{})
	detail := map[string]interface{}{"program": cc.Name, "graph": cc.Graph, "gomaxprocs": cc.Procs, "profile": cc.Profile.String(), "query": gq.QueryString(stmts)}
	// livelock certificate: the mark keeps sending signals and no traveler moves
	w.HangDiag.Store(func() *fw.Result {
		ev := env.rec.Events()
		cnt := env.rec.Counts()
		if spin := mon.TailSpin(ev, "mark.sig_send", travelerSites); spin >= 1000 && cnt["mark.close"] == 0 {
			detail["events"] = cnt
			r := fw.ViolatedR("livelock", fmt.Sprintf("certified livelock: the mark sent %d consecutive signals with no traveler event in between and never closed (%s on %s)", spin, cc.Name, cc.Graph), detail)
			return &r
		}
		// stall certificate (bounded progress): travelers are parked inside the cycle, the stream is
		// open, and for three consecutive 5 s intervals not a single loop event happens (an event
		// normally takes microseconds). Covers goroutines that poll instead of blocking.
		seq := env.rec.Seq()
		for i := 0; i < 3; i++ {
			time.Sleep(5 * time.Second)
			if s2 := env.rec.Seq(); s2 != seq {
				return nil
			}
		}
		cnt = env.rec.Counts()
		if pending := cnt["jump.to_queue"] - cnt["mark.fwd_jump"]; pending <= 0 && cnt["mark.close"] == 0 && cnt["mark.input_closed"] > 0 {
			// nothing is parked any more, the input has ended, and the termination protocol
			// (signals between mark and jumps) does not move either: the stream never closes
			detail["events"] = cnt
			r := fw.ViolatedR("stall", fmt.Sprintf("certified stall: the input of the mark has ended, no traveler is left in the cycle, and no signal was sent or returned during 15 s while the result stream stays open (%s on %s)", cc.Name, cc.Graph), detail)
			return &r
		} else if pending > 0 && cnt["mark.close"] == 0 {
			detail["events"] = cnt
			r := fw.ViolatedR("stall", fmt.Sprintf("certified stall: %d travelers are parked between jump and mark, the result stream is open, and no loop event happened during 15 s (%s on %s)", pending, cc.Name, cc.Graph), detail)
			return &r
		}
		return nil
	})
	defer w.HangDiag.Store((func() *fw.Result)(nil))
	comp := core.NewCompiler(env.graphs[cc.Graph])
	rows := gq.Run(context.Background(), comp, stmts, w.NewDir("work"))
	if rows.CompileErr != "" {
		return fw.InconclusiveR("compile: " + rows.CompileErr)
	}
	// let the queue goroutines reach their final events
	var cnt map[string]int64
	for i := 0; i < 200; i++ {
		cnt = env.rec.Counts()
		if cnt["jump.to_queue"] == cnt["queue.out"] && cnt["queue.out"] == cnt["mark.fwd_jump"] {
			break
		}
		time.Sleep(time.Millisecond)
	}
	events := env.rec.Events()
	got := gq.CanonRows(rows.Rows)
	res := fw.HeldR(len(want) > 0 && cnt["mark.fwd_jump"] > 0, "")
	res.Sig = string(fw.J(map[string]interface{}{"p": cc.Name, "g": cc.Graph, "sig": mon.Signature(events, 4000)}))
	for k, v := range cnt {
		res.Count("ev_"+k, v)
	}
	res.AddSet("interleaving_signatures", mon.Signature(events, 4000))
	res.AddSet("profiles", cc.Profile.String())
	res.AddSet("gomaxprocs", fmt.Sprint(cc.Procs))
	detail["events"] = cnt
	if !gq.SameMultiset(got, want) {
		detail["engine_rows"], detail["iterative_definition"] = trunc20(got), trunc20(want)
		return fw.ViolatedR("rows:"+c12Class(cc.Name), fmt.Sprintf("%s on %s (GOMAXPROCS=%d, %s): engine returns %d rows %s, the iterative definition gives %d rows %s", cc.Name, cc.Graph, cc.Procs, cc.Profile, len(got), gq.Trunc(strings.Join(got, " "), 200), len(want), gq.Trunc(strings.Join(want, " "), 200)), detail)
	}
	if cnt["mark.close"] > 0 || cnt["mark.input_closed"] > 0 {
		if !(cnt["jump.to_queue"] == cnt["queue.in"] && cnt["queue.in"] == cnt["queue.out"] && cnt["queue.out"] == cnt["mark.fwd_jump"]) {
			return fw.ViolatedR("conservation:"+c12Class(cc.Name), fmt.Sprintf("%s on %s: travelers were lost or duplicated in the cycle: jump.to_queue=%d queue.in=%d queue.out=%d mark.fwd_jump=%d", cc.Name, cc.Graph, cnt["jump.to_queue"], cnt["queue.in"], cnt["queue.out"], cnt["mark.fwd_jump"]), detail)
		}
	}
	// protocol anomaly (diagnostic, not a verdict): close without a signal sent after the last forwarded jumper
	lastFwd, lastSend := int64(0), int64(0)
	for _, e := range events {
		switch e.Site {
		case "mark.fwd_jump":
			lastFwd = e.Seq
		case "mark.sig_send":
			lastSend = e.Seq
		}
	}
	if cnt["mark.close"] > 0 && lastSend < lastFwd {
		res.Count("protocol_anomaly", 1)
	}
	return res
}

func trunc20(l []string) []string {
	if len(l) > 20 {
		return l[:20]
	}
	return l
}

func c12Class(name string) string {
	if i := strings.Index(name, ".mark(m)."); i >= 0 {
		rest := name[i+9:]
		if j := strings.Index(rest, ".increment"); j >= 0 {
			return rest[:j]
		}
	}
	if i := strings.Index(name, "("); i > 0 {
		return name[:i]
	}
	return name
}

func init() {
	fw.Register(&fw.Property{
		ID:                "C12",
		Race:              true,
		ScheduleDependent: true,
		WorkerProcs:       -1,
		Rule:              "loop programs V(starts).set(c,0).as(s).mark(m).BODY.increment($s.c).has(lt($s.c,K)).jump(m,COND,EMIT).TAIL with 8 order-preserving bodies x 3 conditions x emit on/off x K in 0..4, two jumps to one mark, a jump placed before its mark, a counter created by the first increment, on chain/cycle/binary tree/the same tree without vertex properties/star/K4/K5 (K6 in thorough; up to several thousand travelers in flight, beyond the 50/100/1000/5000 capacities); each (program, graph) runs under GOMAXPROCS in {1,2,4,16} x 15 delay profiles at the verifhook points (none, yield everywhere, two random profiles, a long sleep at exactly one site for each of 9 sites) in a -race build. Oracle: result multiset = worklist interpreter of the iterative definition; closure (livelock/deadlock certificate otherwise); conservation of travelers in the recorded event trace (jump.to_queue = queue.in = queue.out = mark.fwd_jump at the end). Non-trivial = non-empty expected result and at least one traveler went round the cycle; distinct = distinct (program, graph, interleaving signature), the signature being a hash of the recorded event order.",
		Assumptions: []string{
			"loop bodies are order-preserving steps (both()/bothE() let the termination signal overtake travelers and are excluded by the property text)",
			"counters live in a mark ($s.c) as in the documentation example; counters on the current element are aliased between travelers and unspecified",
			"'all interleavings' is sampled with delay injection, not enumerated: the evidence reports the number of distinct interleaving signatures observed",
			"a signal-ordering anomaly without a lost traveler is counted (protocol_anomaly) but is not a violation",
		},
		BatchSize:   40,
		CaseTimeout: 240 * time.Second,
		Gen:         c12Gen,
		Exec:        c12Exec,
		Sample: func(c fw.Case, r fw.Result) interface{} {
			var cc c12Case
			c.Decode(&cc)
			return map[string]interface{}{"program": cc.Name, "graph": cc.Graph, "gomaxprocs": cc.Procs, "profile": cc.Profile.String(), "events": r.Counters}
		},
	})
}
