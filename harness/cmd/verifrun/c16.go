package main

import (
	"context"
	"encoding/json"
	"fmt"
	"math/rand"
	"sort"
	"strings"
	"time"
	"unicode/utf8"

	"github.com/bmeg/grip/gdbi"
	"github.com/bmeg/grip/gripql"
	"google.golang.org/protobuf/types/known/structpb"

	"verifharness/fw"
	"verifharness/gq"
	"verifharness/model"
)

// C16 – accepted identifiers and values are stored verbatim or rejected.

func c16Strings() []string {
	out := []string{
		"", "a", "plain", "x\x00y", "\x00", "x\x00", "\x00x", "x\x01y", "\x01", "x\x02", "tab\there", "nl\nhere", "cr\rhere", "\x7f", "\x1b[31m",
		"label", "v", "e", "g", "s", "d", "data", "gid", "_gid", "_label", "from", "to", "D", "f", "t", "i",
		"g__schema__", "x__mapping__", "__schema__", "pop", "pop2", "po", "popx",
		"a", "ab", "abc", "a ", " a", "A", "é", "é", "‮RTL", "𝔘𝔫𝔦", "\xff\xfe", "\xc3\x28", "日本語",
		"a.b", "a|b", "a:b", "a/b", "../x", "a-b", "-a", "_a", "a_b", "$a", "$", "a$b", "%s", "%d%n", "'", "\"", "`", ";", "--", "a,b", "a*", "?", "(", ")", "[", "]", "{", "}", "<", ">", "=", "+", "&", "#", "@", "!", "~", "^", "\\", "\\x00",
		"null", "true", "0", "1e10", "-1", "NaN",
		strings.Repeat("L", 65536), strings.Repeat("\x00", 3), "e1", "b",
	}
	return out
}

func c16Values() []interface{} {
	deep := interface{}("leaf")
	for i := 0; i < 60; i++ {
		deep = map[string]interface{}{"k": deep}
	}
	deepList := interface{}(1.0)
	for i := 0; i < 60; i++ {
		deepList = []interface{}{deepList}
	}
	return []interface{}{
		nil, true, false, 0.0, -1.0, 1.5, 1e308, -1e308, 5e-324, 9007199254740993.0, 1e21, "", "x\x00y", "\xff\xfe", "𝔘", strings.Repeat("v", 70000),
		[]interface{}{}, map[string]interface{}{}, []interface{}{nil, []interface{}{}, map[string]interface{}{}}, map[string]interface{}{"": 1.0}, map[string]interface{}{"a.b": 1.0, "a b": 2.0, "_gid": 3.0},
		deep, deepList, []interface{}{1.0, "a", true, nil, 2.5}, map[string]interface{}{"x\x00y": 1.0},
	}
}

type c16Case struct {
	Via   string          `json:"via"` // gdbi | rpc
	Pos   string          `json:"pos"` // graph vid vlabel eid elabel from to prop value
	S     string          `json:"s"`   // hex of the hostile string
	S2    string          `json:"s2,omitempty"`
	Pos2  string          `json:"pos2,omitempty"`
	Value json.RawMessage `json:"value,omitempty"`
}

func c16Gen(g *fw.GenCtx) []fw.Case {
	var cases []fw.Case
	avoid := g.Avoid
	strs := c16Strings()
	positions := []string{"graph", "vid", "vlabel", "eid", "elabel", "from", "to", "prop"}
	for _, via := range []string{"gdbi", "rpc"} {
		for _, p := range positions {
			for _, s := range strs {
				if via == "rpc" && len(s) > 1000 && p == "graph" {
					continue
				}
				if via == "rpc" && p == "eid" && s == "" {
					continue // the server assigns an id to an edge without one
				}
				if !utf8.ValidString(s) && (p == "prop" || via == "rpc") {
					// not sendable over gRPC; at the gdbi boundary a property name that is not UTF-8 is a known finding
					if via == "rpc" || avoid["c16-non-utf8-data"] {
						continue
					}
				}
				cases = append(cases, fw.MkCase("single", c16Case{Via: via, Pos: p, S: hx(s)}))
			}
		}
		for i, v := range c16Values() {
			if sv, ok := v.(string); ok && !utf8.ValidString(sv) && (via == "rpc" || avoid["c16-non-utf8-data"]) {
				continue
			}
			cases = append(cases, fw.MkCase("value", c16Case{Via: via, Pos: "value", Value: fw.J(i)}))
		}
	}
	rng := rand.New(rand.NewSource(g.Seed*71 + 3))
	n := g.Pick(500, 20000)
	for i := 0; i < n; i++ {
		p1, p2 := positions[rng.Intn(len(positions))], positions[rng.Intn(len(positions))]
		if p1 == p2 {
			continue
		}
		via := []string{"gdbi", "rpc"}[rng.Intn(2)]
		s1, s2 := strs[rng.Intn(len(strs)-1)], strs[rng.Intn(len(strs)-1)]
		if !utf8.ValidString(s1) || !utf8.ValidString(s2) {
			continue
		}
		if via == "rpc" && ((p1 == "eid" && s1 == "") || (p2 == "eid" && s2 == "")) {
			continue
		}
		cases = append(cases, fw.MkCase("pair", c16Case{Via: via, Pos: p1, S: hx(s1), Pos2: p2, S2: hx(s2)}))
	}
	return cases
}

// ---------------------------------------------------------------------------

func c16Population() *tGraph {
	return &tGraph{Name: "pop",
		V: []*model.Elem{mv("a", "P", M{"x": 1.0}), mv("b", "Q", M{"y": "t"}), mv("ab", "P", nil), mv("label", "v", M{"label": "z"})},
		E: []*model.Elem{me("e1", "r", "a", "b", M{"w": 1.0}), me("e2", "s", "b", "ab", nil), me("e", "label", "ab", "a", nil)}}
}

type c16Env struct {
	ls *gq.LiveServer
	n  int
}

// fullState renders every listed graph completely and canonically.
func fullState(db gdbi.GraphDB, extraIDs []string) map[string]string {
	out := map[string]string{}
	graphs := db.ListGraphs()
	sort.Strings(graphs)
	out["ListGraphs"] = strings.Join(graphs, "\x1f")
	u := model.Universe{VIDs: extraIDs}
	for _, gn := range graphs {
		gi, err := db.Graph(gn)
		if err != nil {
			out[gn] = "error"
			continue
		}
		gs := gq.SnapshotGraph(gi, u)
		var vs, es []string
		for _, v := range gs.V {
			vs = append(vs, model.CanonElem(v, true))
		}
		for _, e := range gs.E {
			es = append(es, model.CanonElem(e, true))
		}
		sort.Strings(vs)
		sort.Strings(es)
		out[gn+"|V"] = strings.Join(vs, "\n")
		out[gn+"|E"] = strings.Join(es, "\n")
		out[gn+"|dups"] = fmt.Sprint(gs.VDup, gs.EDup)
		vl := append([]string{}, gs.VLabels...)
		el := append([]string{}, gs.ELabels...)
		sort.Strings(vl)
		sort.Strings(el)
		out[gn+"|VLabels"] = strings.Join(vl, "\x1f")
		out[gn+"|ELabels"] = strings.Join(el, "\x1f")
		if bad := gs.Invariants(gn); len(bad) > 0 {
			out[gn+"|invariants"] = strings.Join(bad, "\n")
		}
	}
	return out
}

func c16Exec(w *fw.Worker, c fw.Case) fw.Result {
	var cc c16Case
	c.Decode(&cc)
	env := w.State("c16", func() interface{} {
		ls, err := gq.StartServer(w.NewDir("c16srv"), gq.ServerOpts{})
		if err != nil {
			panic(err)
		}
		return &c16Env{ls: ls}
	}).(*c16Env)
	env.n++
	db := env.ls.DB
	ctx := context.Background()
	// fresh target graph with the population, plus a bystander graph
	gname := fmt.Sprintf("pop%d", env.n)
	other := fmt.Sprintf("other%d", env.n)
	if _, err := env.ls.E.AddGraph(ctx, &gripql.GraphID{Graph: gname}); err != nil {
		return fw.InconclusiveR("setup: " + err.Error())
	}
	env.ls.E.AddGraph(ctx, &gripql.GraphID{Graph: other})
	pop := c16Population()
	for _, gn := range []string{gname, other} {
		gi, _ := db.Graph(gn)
		for _, v := range pop.V {
			gi.AddVertex([]*gdbi.Vertex{gq.FromModelElem(v)})
		}
		for _, e := range pop.E {
			gi.AddEdge([]*gdbi.Edge{gq.FromModelElem(e)})
		}
	}
	defer func() {
		// keep the store small
		for _, g := range db.ListGraphs() {
			if g != "" {
				env.ls.E.DeleteGraph(ctx, &gripql.GraphID{Graph: g})
			}
		}
	}()

	// the element to write
	vtx := &model.Elem{ID: "nv", Label: "NL", Data: M{"k": 1.0}}
	edge := &model.Elem{ID: "ne", Label: "nl", From: "a", To: "b", Data: M{"k": 1.0}, Edge: true}
	target := gname
	kind := "vertex"
	newGraph := ""
	apply := func(pos, s string) {
		switch pos {
		case "graph":
			kind = "graph"
			newGraph = s
		case "vid":
			vtx.ID = s
		case "vlabel":
			vtx.Label = s
		case "prop":
			vtx.Data = M{s: 1.0}
		case "eid":
			kind = "edge"
			edge.ID = s
		case "elabel":
			kind = "edge"
			edge.Label = s
		case "from":
			kind = "edge"
			edge.From = s
		case "to":
			kind = "edge"
			edge.To = s
		}
	}
	apply(cc.Pos, string(unhx(cc.S)))
	if cc.Pos2 != "" {
		if cc.Pos2 == "graph" || cc.Pos == "graph" {
			// a hostile graph name together with an element: the element goes into that graph
			kind = "graph+vertex"
		}
		apply(cc.Pos2, string(unhx(cc.S2)))
		if cc.Pos2 == "graph" || cc.Pos == "graph" {
			if kind != "edge" {
				kind = "graph+vertex"
			}
		}
	}
	if cc.Pos == "value" {
		var idx int
		json.Unmarshal(cc.Value, &idx)
		vtx.Data = M{"val": c16Values()[idx]}
	}
	extra := []string{vtx.ID, edge.From, edge.To}
	before := fullState(db, extra)

	res := fw.HeldR(true, "")
	res.AddSet("positions", cc.Pos)
	var werr error
	wrote := ""
	writeElem := func(graph string, el *model.Elem) error {
		if cc.Via == "gdbi" {
			gi, err := db.Graph(graph)
			if err != nil {
				return err
			}
			if el.Edge {
				return gi.AddEdge([]*gdbi.Edge{gq.FromModelElem(el)})
			}
			return gi.AddVertex([]*gdbi.Vertex{gq.FromModelElem(el)})
		}
		if el.Edge {
			_, err := env.ls.E.AddEdge(ctx, &gripql.GraphElement{Graph: graph, Edge: &gripql.Edge{Gid: el.ID, Label: el.Label, From: el.From, To: el.To, Data: safeStruct(el.Data)}})
			return err
		}
		_, err := env.ls.E.AddVertex(ctx, &gripql.GraphElement{Graph: graph, Vertex: &gripql.Vertex{Gid: el.ID, Label: el.Label, Data: safeStruct(el.Data)}})
		return err
	}
	var written *model.Elem
	switch kind {
	case "graph", "graph+vertex":
		if cc.Via == "gdbi" {
			werr = db.AddGraph(newGraph)
		} else {
			_, werr = env.ls.E.AddGraph(ctx, &gripql.GraphID{Graph: newGraph})
		}
		wrote = "graph"
		if werr == nil && kind == "graph+vertex" {
			target = newGraph
			werr2 := writeElem(target, vtx)
			if werr2 == nil {
				written = vtx
			}
		}
	case "edge":
		werr = writeElem(target, edge)
		wrote = "edge"
		if werr == nil {
			written = edge
		}
	default:
		werr = writeElem(target, vtx)
		wrote = "vertex"
		if werr == nil {
			written = vtx
		}
	}
	if st := errStatus(werr); st == "transport" {
		return fw.InconclusiveR("rpc transport error: " + werr.Error())
	}
	after := fullState(db, extra)

	// expected state
	want := map[string]string{}
	for k, v := range before {
		want[k] = v
	}
	detail := map[string]interface{}{"case": cc, "wrote": wrote, "graph": newGraph, "vertex": vtx, "edge": edge, "error": fmt.Sprint(werr)}
	if (kind == "graph" || kind == "graph+vertex") && werr == nil {
		graphs := strings.Split(before["ListGraphs"], "\x1f")
		found := false
		for _, g := range graphs {
			if g == newGraph {
				found = true
			}
		}
		if !found {
			graphs = append(graphs, newGraph)
			sort.Strings(graphs)
			want["ListGraphs"] = strings.Join(graphs, "\x1f")
			for _, sfx := range []string{"|V", "|E", "|VLabels", "|ELabels"} {
				want[newGraph+sfx] = ""
			}
			want[newGraph+"|dups"] = "[] []"
		}
		res.AddSet("outcomes", "graph-accepted")
	}
	if written != nil {
		// the written element must read back verbatim: before + exactly that element
		// (replacing a stored element with the same id)
		addTo := func(key string, el *model.Elem) {
			var lines []string
			for _, l := range strings.Split(before[key], "\n") {
				if l == "" {
					continue
				}
				var m map[string]interface{}
				json.Unmarshal([]byte(l), &m)
				if id, _ := m["id"].(string); id == el.ID {
					continue
				}
				lines = append(lines, l)
			}
			lines = append(lines, model.CanonElem(el, true))
			sort.Strings(lines)
			want[key] = strings.Join(lines, "\n")
		}
		labelsOf := func(key string) string {
			set := map[string]bool{}
			for _, l := range strings.Split(want[key], "\n") {
				var m map[string]interface{}
				if json.Unmarshal([]byte(l), &m) == nil {
					if lb, ok := m["label"].(string); ok {
						set[lb] = true
					}
				}
			}
			return strings.Join(sortedKeys(set), "\x1f")
		}
		if _, ok := want[target+"|V"]; !ok {
			want[target+"|V"], want[target+"|E"] = "", ""
		}
		if written.Edge {
			addTo(target+"|E", written)
			want[target+"|ELabels"] = labelsOf(target + "|E")
		} else {
			c := *written
			c.From, c.To = "", ""
			addTo(target+"|V", &c)
			want[target+"|VLabels"] = labelsOf(target + "|V")
		}
		res.AddSet("outcomes", wrote+"-accepted")
	} else if werr != nil {
		res.AddSet("outcomes", wrote+"-rejected")
	}
	var diffs []string
	for k, wv := range want {
		if after[k] != wv {
			diffs = append(diffs, fmt.Sprintf("%s: found %s, expected %s", printable(k), gq.Trunc(printable(after[k]), 400), gq.Trunc(printable(wv), 400)))
		}
	}
	for k, av := range after {
		if _, ok := want[k]; !ok {
			diffs = append(diffs, fmt.Sprintf("%s: unexpected %s", printable(k), gq.Trunc(printable(av), 400)))
		}
	}
	sort.Strings(diffs)
	if len(diffs) > 0 {
		outcome := "accepted"
		if werr != nil {
			outcome = "rejected"
		}
		detail["differences"] = diffs
		key := fmt.Sprintf("%s:%s:%s:%s", cc.Via, cc.Pos, c16Class(string(unhx(cc.S))), outcome)
		if cc.Via == "gdbi" && werr == nil && !dataIsUTF8(vtx.Data) {
			key = "gdbi:non-utf8-data"
		}
		return fw.ViolatedR(key,
			fmt.Sprintf("%s write (%s=%s) was %s but the stored graphs are not 'before%s': %s", wrote, cc.Pos, printable(gq.Trunc(string(unhx(cc.S)), 40)), outcome,
				map[bool]string{true: "", false: " + exactly that element"}[werr != nil], diffs[0]), detail)
	}
	// direct read-back of an accepted element through lookups and traversals
	if written != nil {
		gi, err := db.Graph(target)
		if err != nil {
			return fw.ViolatedR(fmt.Sprintf("%s:%s:%s:graph-unreadable", cc.Via, cc.Pos, c16Class(string(unhx(cc.S)))), "graph accepted but cannot be opened: "+err.Error(), detail)
		}
		var got, exp string
		var q *gripql.Query
		if written.Edge {
			got, exp = model.CanonElem(gq.ToModelElem(gi.GetEdge(written.ID, true), true), true), model.CanonElem(written, true)
			q = gripql.E(written.ID)
		} else {
			c := *written
			got, exp = model.CanonElem(gq.ToModelElem(gi.GetVertex(written.ID, true), false), true), model.CanonElem(&c, true)
			q = gripql.V(written.ID)
		}
		if got != exp {
			return fw.ViolatedR(fmt.Sprintf("%s:%s:%s:lookup", cc.Via, cc.Pos, c16Class(string(unhx(cc.S)))), fmt.Sprintf("accepted element does not read back by id: got %s, wrote %s", printable(got), printable(exp)), detail)
		}
		rows := gq.Run(ctx, gi.Compiler(), q.Statements, w.NewDir("work"))
		if rows.CompileErr != "" || len(rows.Rows) != 1 {
			return fw.ViolatedR(fmt.Sprintf("%s:%s:%s:traversal", cc.Via, cc.Pos, c16Class(string(unhx(cc.S)))), fmt.Sprintf("accepted element is not returned by %s: %d rows %s", q.String(), len(rows.Rows), rows.CompileErr), detail)
		}
		lq := gripql.V().HasLabel(written.Label)
		if written.Edge {
			lq = gripql.E().HasLabel(written.Label)
		}
		rows = gq.Run(ctx, gi.Compiler(), lq.Statements, w.NewDir("work"))
		found := false
		for _, r := range rows.Rows {
			if r.GetVertex().GetGid() == written.ID || r.GetEdge().GetGid() == written.ID {
				found = true
			}
		}
		if !found {
			return fw.ViolatedR(fmt.Sprintf("%s:%s:%s:label-traversal", cc.Via, cc.Pos, c16Class(string(unhx(cc.S)))), "accepted element is not returned by hasLabel(its label)", detail)
		}
		res.Count("readbacks", 1)
	}
	res.Count("writes", 1)
	return res
}

func dataIsUTF8(v interface{}) bool {
	switch x := v.(type) {
	case string:
		return utf8.ValidString(x)
	case map[string]interface{}:
		for k, w := range x {
			if !utf8.ValidString(k) || !dataIsUTF8(w) {
				return false
			}
		}
	case []interface{}:
		for _, w := range x {
			if !dataIsUTF8(w) {
				return false
			}
		}
	}
	return true
}

func safeStruct(m map[string]interface{}) (s *structpb.Struct) {
	defer func() {
		if r := recover(); r != nil {
			s = nil
		}
	}()
	return gq.Struct(m)
}

func sortedKeys(m map[string]bool) []string {
	var out []string
	for k := range m {
		out = append(out, k)
	}
	sort.Strings(out)
	return out
}

func printable(s string) string {
	var sb strings.Builder
	for _, r := range []byte(s) {
		if r < 0x20 || r >= 0x7f {
			fmt.Fprintf(&sb, "\\x%02x", r)
		} else {
			sb.WriteByte(r)
		}
	}
	return sb.String()
}

// c16Class names the class of a hostile string for finding keys.
func c16Class(s string) string {
	switch {
	case s == "":
		return "empty"
	case strings.Contains(s, "\x00"):
		return "nul"
	case len(s) > 1000:
		return "long"
	case strings.ContainsAny(s, "\x01\x02\t\n\r\x7f\x1b"):
		return "control"
	case !isASCII(s):
		return "non-ascii"
	case strings.ContainsAny(s, "!@#$%^&*()+={}[] :;\"',.<>?/\\|~`"):
		return "punctuation"
	case strings.Contains(s, "__schema__") || strings.Contains(s, "__mapping__"):
		return "reserved-suffix"
	}
	return "word:" + s
}

func isASCII(s string) bool {
	for i := 0; i < len(s); i++ {
		if s[i] >= 0x80 {
			return false
		}
	}
	return true
}

func errStatus(err error) string {
	if err == nil {
		return ""
	}
	if strings.Contains(err.Error(), "Unavailable") || strings.Contains(err.Error(), "transport") {
		return "transport"
	}
	return "error"
}

func init() {
	fw.Register(&fw.Property{
		ID:   "C16",
		Rule: "one write per case against a graph that already holds a 4-vertex/3-edge population (and a bystander graph with the same population): ~110 hostile strings (NUL and 0x01 - the key separator and edge-type byte -, control bytes, every punctuation character, the words used internally such as label/v/e/g/data/gid, __schema__/__mapping__ suffixes, prefixes of existing ids, unicode incl. invalid UTF-8, 64 KB) x 8 positions (graph name, vertex id/label, edge id/label/from/to, property name) x 2 boundaries (gdbi.GraphInterface, gRPC Edit service), 25 property values (deep nesting, empty containers, numeric extremes), and 500 / 20000 random pairs of positions. Oracle: complete state of ALL graphs before and after (every vertex and edge with data, label listings, duplicates, adjacency/label-index invariants): success => after = before + exactly that element verbatim, and it reads back by id, by V(id)/E(id) and by hasLabel; error => after = before. Every case is non-trivial.",
		Assumptions: []string{
			"a string the gRPC client cannot marshal (invalid UTF-8) never reaches the server: counted as rejected",
			"whether a given string is accepted or rejected is not judged, only that acceptance means verbatim storage and rejection means no change",
		},
		BatchSize:   150,
		CaseTimeout: 120 * time.Second,
		Gen:         c16Gen,
		Exec:        c16Exec,
	})
}
