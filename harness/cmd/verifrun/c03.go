package main

import (
	"fmt"
	"math/rand"
	"strings"

	"github.com/bmeg/grip/gdbi"

	"verifharness/fw"
	"verifharness/gq"
	"verifharness/model"
)

// C03 – any mutation history leaves exactly the abstract graph observable.

var c03U = model.Universe{
	Graphs:  []string{"g1", "g1b"},
	VIDs:    []string{"a", "b", "c", "zz"},
	EIDs:    []string{"e1", "e2", "e3"},
	VLabels: []string{"P", "Q"},
	ELabels: []string{"r", "s"},
}

func mv(id, label string, data map[string]interface{}) *model.Elem {
	return &model.Elem{ID: id, Label: label, Data: data}
}
func me(id, label, from, to string, data map[string]interface{}) *model.Elem {
	return &model.Elem{ID: id, Label: label, From: from, To: to, Data: data, Edge: true}
}

type M = map[string]interface{}

// c03Alphabet is the operation alphabet of DESIGN.md C03. avoid switches off
// the trigger regions of known findings.
func c03Alphabet(avoid map[string]bool) []model.Op {
	ops := []model.Op{
		{Op: "AddGraph", Graph: "g1"},
		{Op: "AddGraph", Graph: "g1b"},
		{Op: "AddGraph", Graph: "bad name"},
		{Op: "DeleteGraph", Graph: "g1"},
		{Op: "DeleteGraph", Graph: "g1b"},
		{Op: "AddVertex", Graph: "g1", Elems: []*model.Elem{mv("a", "P", nil)}},
		{Op: "AddVertex", Graph: "g1", Elems: []*model.Elem{mv("b", "P", M{"x": 1.0})}},
		{Op: "AddVertex", Graph: "g1", Elems: []*model.Elem{mv("c", "Q", M{"x": 2.0, "y": "t"})}},
		{Op: "AddVertex", Graph: "g1", Elems: []*model.Elem{mv("a", "P", M{"x": 1.0}), mv("b", "Q", nil)}},
		{Op: "AddVertex", Graph: "g1", Elems: []*model.Elem{mv("", "P", nil)}},
		{Op: "AddVertex", Graph: "g1", Elems: []*model.Elem{mv("a", "", nil)}},
		{Op: "AddVertex", Graph: "g1", Elems: []*model.Elem{mv("c", "P", M{"_gid": 1.0})}},
		{Op: "AddVertex", Graph: "g1", Elems: []*model.Elem{mv("c", "P", M{"a b": 1.0})}},
		{Op: "AddVertex", Graph: "g1b", Elems: []*model.Elem{mv("a", "P", M{"x": 2.0})}},
		{Op: "AddVertex", Graph: "g3", Elems: []*model.Elem{mv("a", "P", nil)}},
		{Op: "AddEdge", Graph: "g1", Elems: []*model.Elem{me("e1", "r", "a", "b", nil)}},
		{Op: "AddEdge", Graph: "g1", Elems: []*model.Elem{me("e1", "r", "a", "b", M{"w": 5.0})}},
		{Op: "AddEdge", Graph: "g1", Elems: []*model.Elem{me("e2", "r", "a", "a", nil)}},
		{Op: "AddEdge", Graph: "g1", Elems: []*model.Elem{me("e2", "s", "b", "c", M{"w": 1.0})}},
		{Op: "AddEdge", Graph: "g1", Elems: []*model.Elem{me("e3", "r", "a", "zz", nil)}},
		{Op: "AddEdge", Graph: "g1", Elems: []*model.Elem{me("e3", "s", "c", "a", nil), me("e2", "s", "b", "c", nil)}},
		{Op: "AddEdge", Graph: "g1", Elems: []*model.Elem{me("e3", "r", "", "a", nil)}},
		{Op: "AddEdge", Graph: "g1", Elems: []*model.Elem{me("", "r", "a", "b", nil)}},
		{Op: "AddEdge", Graph: "g1b", Elems: []*model.Elem{me("e1", "r", "a", "b", nil)}},
		{Op: "BulkAdd", Graph: "g1", Elems: []*model.Elem{mv("c", "P", nil), me("e3", "s", "c", "a", nil)}},
		{Op: "BulkAdd", Graph: "g1", Elems: []*model.Elem{mv("b", "Q", M{"x": 3.0})}},
		{Op: "BulkAdd", Graph: "g1", Elems: []*model.Elem{mv("c", "Q", M{"x": 4.0}), me("c", "s", "c", "a", nil)}}, // a vertex and an edge with one gid are two elements
		{Op: "DelVertex", Graph: "g1", ID: "a"},
		{Op: "DelVertex", Graph: "g1", ID: "b"},
		{Op: "DelVertex", Graph: "g1", ID: "zz"},
		{Op: "DelVertex", Graph: "g1b", ID: "a"},
		{Op: "DelEdge", Graph: "g1", ID: "e1"},
		{Op: "DelEdge", Graph: "g1", ID: "e2"},
		{Op: "DelEdge", Graph: "g1", ID: "zz"},
		{Op: "DelEdge", Graph: "g1b", ID: "e1"},
	}
	if !avoid["c03-readd-edge-different-shape"] {
		ops = append(ops,
			model.Op{Op: "AddEdge", Graph: "g1", Elems: []*model.Elem{me("e1", "s", "a", "b", nil)}},
			model.Op{Op: "AddEdge", Graph: "g1", Elems: []*model.Elem{me("e1", "r", "b", "a", nil)}},
		)
	}
	if !avoid["c03-same-id-twice-in-one-batch"] {
		ops = append(ops,
			model.Op{Op: "AddEdge", Graph: "g1", Elems: []*model.Elem{me("e3", "r", "a", "b", nil), me("e3", "s", "b", "a", nil)}},
			model.Op{Op: "BulkAdd", Graph: "g1", Elems: []*model.Elem{mv("c", "P", nil), mv("c", "Q", M{"x": 1.0})}},
		)
	}
	if !avoid["c03-relabel-vertex"] {
		ops = append(ops, model.Op{Op: "AddVertex", Graph: "g1", Elems: []*model.Elem{mv("a", "Q", M{"x": 1.0})}})
	}
	return ops
}

// batchDuplicate recognises the trigger of a known finding: one call naming
// the same id twice with different label/endpoints.
func batchDuplicate(o model.Op) string {
	seen := map[string]*model.Elem{}
	for _, e := range o.Elems {
		k := fmt.Sprintf("%v|%s", e.Edge, e.ID)
		if p, ok := seen[k]; ok && (p.Label != e.Label || p.From != e.From || p.To != e.To) {
			if e.Edge {
				return "batch-duplicate-id:edge"
			}
			return "batch-duplicate-id:vertex"
		}
		seen[k] = e
	}
	return ""
}

var c03Bases = [][]model.Op{
	{},
	{{Op: "AddGraph", Graph: "g1"}},
	{{Op: "AddGraph", Graph: "g1"}, {Op: "AddGraph", Graph: "g1b"},
		{Op: "AddVertex", Graph: "g1", Elems: []*model.Elem{mv("a", "P", M{"x": 1.0}), mv("b", "Q", nil)}},
		{Op: "AddEdge", Graph: "g1", Elems: []*model.Elem{me("e1", "r", "a", "b", nil)}},
		{Op: "AddEdge", Graph: "g1", Elems: []*model.Elem{me("e2", "s", "b", "a", M{"w": 1.0})}}},
}

type c03Case struct {
	Base    int        `json:"base"`
	Ops     []model.Op `json:"ops"`
	Fresh   bool       `json:"fresh,omitempty"`
	Restart []int      `json:"restart,omitempty"` // used by C04: close+reopen before op index i
}

func c03Histories(g *fw.GenCtx, alpha []model.Op) []c03Case {
	var out []c03Case
	depth := g.Pick(2, 3)
	var rec func(prefix []model.Op, d int, base int)
	rec = func(prefix []model.Op, d int, base int) {
		if d == 0 {
			out = append(out, c03Case{Base: base, Ops: append([]model.Op{}, prefix...)})
			return
		}
		for _, o := range alpha {
			rec(append(prefix, o), d-1, base)
		}
	}
	for b := range c03Bases {
		if depth == 3 && b == 0 {
			// depth 3 on the empty database is dominated by failing calls; depth 2 there
			rec(nil, 2, b)
			continue
		}
		rec(nil, depth, b)
	}
	rng := rand.New(rand.NewSource(g.Seed*7919 + 3))
	n := g.Pick(300, 20000)
	for i := 0; i < n; i++ {
		l := 10 + rng.Intn(16)
		var ops []model.Op
		for j := 0; j < l; j++ {
			ops = append(ops, alpha[rng.Intn(len(alpha))])
		}
		out = append(out, c03Case{Base: rng.Intn(len(c03Bases)), Ops: ops, Fresh: i%10 == 0})
	}
	return out
}

func c03Gen(g *fw.GenCtx) []fw.Case {
	var cases []fw.Case
	for _, h := range c03Histories(g, c03Alphabet(g.Avoid)) {
		cases = append(cases, fw.MkCase("history", h))
	}
	return cases
}

// renameOp maps the universe graph names into a per-history namespace so one
// store can host many histories.
func renameOp(o model.Op, prefix string) model.Op {
	if !strings.Contains(o.Graph, " ") {
		o.Graph = prefix + o.Graph
	}
	return o
}

func renameU(u model.Universe, prefix string) model.Universe {
	r := u
	r.Graphs = nil
	for _, g := range u.Graphs {
		r.Graphs = append(r.Graphs, prefix+g)
	}
	return r
}

type c03Store struct {
	db  gdbi.GraphDB
	dir string
	n   int
}

func filterGraphs(obs map[string]string, prefix string, db gdbi.GraphDB) {
	var l []string
	for _, g := range db.ListGraphs() {
		if strings.HasPrefix(g, prefix) {
			l = append(l, g)
		}
	}
	obs["ListGraphs"] = model.JoinSorted(l)
}

// runHistory executes one history against db and the model, observing after
// every step. It returns a violation result or held.
func runHistory(w *fw.Worker, db gdbi.GraphDB, reopen func() gdbi.GraphDB, h c03Case, prefix string, prop string) fw.Result {
	u := renameU(c03U, prefix)
	world := model.NewWorld()
	res := fw.HeldR(false, "")
	workdir := w.NewDir("work")
	step := func(i int, o model.Op, isBase bool) *fw.Result {
		ro := renameOp(o, prefix)
		tsBefore := gq.Timestamps(db, u)
		out := world.Apply(ro)
		errText := gq.ApplyOp(db, ro)
		tsAfter := gq.Timestamps(db, u)
		res.Count("ops", 1)
		res.AddSet("op_kinds", o.Op)
		want := world.Observe(u)
		got := gq.ObserveDB(db, u, workdir)
		filterGraphs(got, prefix, db)
		res.Count("observations", int64(len(got)))
		tsRead := gq.Timestamps(db, u)
		hist := func() interface{} {
			return map[string]interface{}{"base": h.Base, "ops": h.Ops, "failing_step": i, "failing_op": o, "restart": h.Restart}
		}
		if d := model.DiffObs(got, want); len(d) > 0 {
			key := fmt.Sprintf("%s:%s", o.Op, strings.Join(model.DiffKeys(d), "+"))
			if k := batchDuplicate(o); k != "" {
				key = k
			}
			if len(d) > 12 {
				d = d[:12]
			}
			r := fw.ViolatedR(key, fmt.Sprintf("after step %d (%s) the observable graph differs from the abstract graph: %s", i, o.Op, gq.Trunc(d[0], 300)),
				map[string]interface{}{"history": hist(), "call_error": errText, "differences": d})
			return &r
		}
		if out.MustFail && errText == "" {
			r := fw.ViolatedR(o.Op+":accepted-invalid", fmt.Sprintf("step %d: %s must be rejected with an error but returned success", i, o), hist())
			return &r
		}
		if !out.MustFail && !out.MayFail && errText != "" {
			r := fw.ViolatedR(o.Op+":unexpected-error", fmt.Sprintf("step %d: valid call %s returned error %q", i, o, errText), hist())
			return &r
		}
		if prop == "C03" {
			// timestamp rule: equality of successive strings only
			for gname, before := range tsBefore {
				after, ok := tsAfter[gname]
				if !ok {
					continue
				}
				target := gname == ro.Graph
				changed := before != after
				if target && out.Mutated && errText == "" && !changed {
					r := fw.ViolatedR(o.Op+":timestamp-unchanged", fmt.Sprintf("step %d: successful mutation %s left the timestamp of %s unchanged", i, o.Op, o.Graph), hist())
					return &r
				}
				if changed && target && o.Op == "AddGraph" {
					// re-creating an existing graph: whether that counts as a mutation is unspecified
					continue
				}
				if changed && !(target && out.Mutated) {
					r := fw.ViolatedR(o.Op+":timestamp-changed", fmt.Sprintf("step %d: timestamp of graph %s changed although %s did not mutate it (error=%q)", i, strings.TrimPrefix(gname, prefix), o, errText), hist())
					return &r
				}
			}
			for gname, after := range tsAfter {
				if tsRead[gname] != after {
					r := fw.ViolatedR("read:timestamp-changed", fmt.Sprintf("step %d: timestamp of %s changed across read-only observations", i, gname), hist())
					return &r
				}
			}
			res.Count("timestamp_checks", int64(len(tsBefore)))
		}
		if out.Mutated && !isBase {
			res.Nontrivial = true
		}
		return nil
	}
	for i, o := range c03Bases[h.Base] {
		if r := step(-len(c03Bases[h.Base])+i, o, true); r != nil {
			return *r
		}
	}
	for i, o := range h.Ops {
		for _, rp := range h.Restart {
			if rp == i && reopen != nil {
				db = reopen()
				res.Count("restarts", 1)
			}
		}
		if r := step(i, o, false); r != nil {
			return *r
		}
	}
	for _, rp := range h.Restart {
		if rp == len(h.Ops) && reopen != nil {
			db = reopen()
			res.Count("restarts", 1)
			want := world.Observe(u)
			got := gq.ObserveDB(db, u, workdir)
			filterGraphs(got, prefix, db)
			if d := model.DiffObs(got, want); len(d) > 0 {
				key := fmt.Sprintf("reopen:%s", strings.Join(model.DiffKeys(d), "+"))
				return fw.ViolatedR(key, "after the final reopen the observable graph differs: "+gq.Trunc(d[0], 300), map[string]interface{}{"history": h, "differences": d})
			}
		}
	}
	return res
}

func c03Exec(w *fw.Worker, c fw.Case) fw.Result {
	var h c03Case
	c.Decode(&h)
	if h.Fresh || c.Witness != "" {
		dir := w.NewDir("fresh")
		db, err := gq.OpenBadger(dir)
		if err != nil {
			return fw.InconclusiveR("open: " + err.Error())
		}
		defer db.Close()
		return runHistory(w, db, nil, h, "", "C03")
	}
	st := w.State("c03", func() interface{} {
		dir := w.NewDir("c03db")
		db, err := gq.OpenBadger(dir)
		if err != nil {
			panic(err)
		}
		return &c03Store{db: db, dir: dir}
	}).(*c03Store)
	st.n++
	return runHistory(w, st.db, nil, h, fmt.Sprintf("h%dx", st.n), "C03")
}

func init() {
	fw.Register(&fw.Property{
		ID:   "C03",
		Rule: "histories over a 35-operation alphabet (2 graphs, 4 vertex ids, 3 edge ids, 2 labels per kind, invalid variants) from three base states: exhaustive to depth 2 (quick) / 3 (thorough) plus seeded random histories of length 10-25; after EVERY step the full observation set (lookups, listings, adjacency in both directions with label filters, label listings, label scans, traversals) is compared with the abstract graph, and the timestamp rule is checked by string equality. Non-trivial = at least one successful mutation beyond the base state; distinct = distinct histories.",
		Assumptions: []string{
			"re-creating an existing graph may succeed or fail but must leave its contents unchanged; whether it touches the timestamp is unspecified and not judged",
			"a batch mixing valid and invalid elements may store the valid ones (the call may return an error)",
			"the timestamp rule is checked within one open database session",
			"a worker reuses one Badger store with per-history graph names; 10% of random histories, every regression witness and every confirmation replay use a fresh store",
		},
		BatchSize:   60,
		CaseTimeout: 180e9,
		Gen:         c03Gen,
		Exec:        c03Exec,
	})
}
