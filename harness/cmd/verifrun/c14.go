package main

import (
	"encoding/json"
	"fmt"
	"math/rand"
	"sort"
	"strings"
	"time"

	"github.com/bmeg/grip/engine/core"
	"github.com/bmeg/grip/engine/logic"
	"github.com/bmeg/grip/gdbi"
	"github.com/bmeg/grip/gripql"
	"github.com/bmeg/grip/mongo"
	"google.golang.org/protobuf/encoding/protojson"

	"verifharness/fw"
	"verifharness/gq"
	"verifharness/model"
)

// C14 – the MongoDB compiler preserves typing and filter meaning.

type c14Case struct {
	Prefix []int           `json:"prefix,omitempty"` // typing: indexes into c14Alphabet; the worker enumerates all extensions
	Len    int             `json:"len,omitempty"`
	Expr   json.RawMessage `json:"expr,omitempty"` // filter equivalence
	// NoNumText leaves numeric-text documents out (known finding: type brackets)
	NoNumText bool `json:"no_numtext,omitempty"`
}

func c14Alphabet() []stepDef {
	a := c01Alphabet()
	q := gripql.NewQuery()
	extra := []stepDef{
		{"outNull()", st(q.OutNull()), false, false},
		{"inENull(r)", &gripql.GraphStatement{Statement: &gripql.GraphStatement_InENull{InENull: lst("r")}}, false, false},
		{"aggregate(count)", st(q.Aggregate([]*gripql.Aggregate{{Name: "c", Aggregation: &gripql.Aggregate_Count{Count: &gripql.CountAggregation{}}}})), false, true},
		{"hasId()", st(q.HasID()), false, false},
		{"hasKey()", st(q.HasKey()), false, false},
	}
	return append(a, extra...)
}

var c14DocValues = []elemVal{
	{"missing", true, nil}, {"null", false, nil}, {"true", false, true}, {"false", false, false},
	{"-1", false, -1.0}, {"0", false, 0.0}, {"1", false, 1.0}, {"1.5", false, 1.5}, {"1e308", false, 1e308},
	{"empty-text", false, ""}, {"text-a", false, "a"}, {"text-b", false, "b"}, {"numtext-1", false, "1"}, {"text-abc", false, "abc"},
}

func c14Leaves(avoid map[string]bool) []*gripql.HasExpression {
	var out []*gripql.HasExpression
	scalars := []interface{}{nil, true, 0.0, 1.0, 1.5, -1.0, "a", "", "1", "b"}
	for _, op := range []string{"EQ", "NEQ", "GT", "GTE", "LT", "LTE", "CONTAINS"} {
		for _, v := range scalars {
			if avoid["c14-ordering-non-number"] && (op == "GT" || op == "GTE" || op == "LT" || op == "LTE") {
				if _, isNum := v.(float64); !isNum {
					continue
				}
			}
			out = append(out, cond(op, "p", v))
		}
	}
	lists := []interface{}{l(), l(1.0), l("a"), l(1.0, "a", nil), l(true, 0.0), l("a", "b", "a")}
	for _, op := range []string{"WITHIN", "WITHOUT"} {
		for _, v := range lists {
			out = append(out, cond(op, "p", v))
		}
	}
	ranges := []interface{}{l(0.0, 1.0), l(-1.0, 1.5), l(1.0, 1.0), l(1.5, 0.0), l(0.0, 1e308)}
	if !avoid["c14-ordering-non-number"] {
		ranges = append(ranges, l("a", "b"), l(0.0, "b"))
	}
	if !avoid["c14-malformed-range"] {
		ranges = append(ranges, l(0.0), l(), l(0.0, 1.0, 2.0), 5.0, "x", nil)
	}
	for _, op := range []string{"INSIDE", "OUTSIDE", "BETWEEN"} {
		for _, v := range ranges {
			out = append(out, cond(op, "p", v))
		}
	}
	out = append(out, cond("EQ", "_gid", "d1"), cond("NEQ", "_label", "L"), cond("WITHIN", "_gid", l("d1", "zz")), cond("EQ", "q.r", 1.0))
	return out
}

func c14Gen(g *fw.GenCtx) []fw.Case {
	var cases []fw.Case
	alpha := c14Alphabet()
	ln := g.Pick(4, 5)
	for i, a := range alpha {
		if a.Start {
			for j := range alpha {
				cases = append(cases, fw.MkCase("typing", c14Case{Prefix: []int{i, j}, Len: ln}))
			}
		} else {
			cases = append(cases, fw.MkCase("typing", c14Case{Prefix: []int{i}, Len: 2}))
		}
	}
	leaves := c14Leaves(g.Avoid)
	add := func(e *gripql.HasExpression) {
		b, _ := protojson.Marshal(e)
		cases = append(cases, fw.MkCase("filter", c14Case{Expr: b, NoNumText: g.Avoid["c14-ordering-non-number"]}))
	}
	for _, lf := range leaves {
		add(lf)
		add(notE(lf))
		add(notE(notE(lf)))
	}
	rng := rand.New(rand.NewSource(g.Seed*19 + 4))
	// depth-2: all pairs of a leaf subset; depth-3 sampled
	sub := leaves
	for i := 0; i < len(sub); i += 3 {
		for j := 1; j < len(sub); j += 5 {
			add(andE(sub[i], sub[j]))
			add(orE(sub[i], sub[j]))
			add(notE(andE(sub[i], sub[j])))
			add(notE(orE(sub[i], notE(sub[j]))))
		}
	}
	n := g.Pick(3000, 60000)
	pickTree := func(d int) *gripql.HasExpression { return nil }
	var build func(d int) *gripql.HasExpression
	build = func(d int) *gripql.HasExpression {
		if d == 0 || rng.Intn(4) == 0 {
			return leaves[rng.Intn(len(leaves))]
		}
		switch rng.Intn(3) {
		case 0:
			return notE(build(d - 1))
		case 1:
			k := 1 + rng.Intn(3)
			var subs []*gripql.HasExpression
			for i := 0; i < k; i++ {
				subs = append(subs, build(d-1))
			}
			return andE(subs...)
		default:
			k := 1 + rng.Intn(3)
			var subs []*gripql.HasExpression
			for i := 0; i < k; i++ {
				subs = append(subs, build(d-1))
			}
			return orE(subs...)
		}
	}
	_ = pickTree
	for i := 0; i < n; i++ {
		add(build(3))
	}
	return cases
}

func typeSig(p gdbi.Pipeline, err error) string {
	if err != nil {
		return "rejected"
	}
	var ms []string
	for k, v := range p.MarkTypes() {
		ms = append(ms, fmt.Sprintf("%s:%s", k, v))
	}
	sort.Strings(ms)
	return fmt.Sprintf("accepted type=%s marks=%s", p.DataType(), strings.Join(ms, ","))
}

func c14MarksDefined(stmts []*gripql.GraphStatement) bool {
	marks := map[string]bool{}
	for _, s := range stmts {
		switch x := s.GetStatement().(type) {
		case *gripql.GraphStatement_As:
			marks[x.As] = true
		case *gripql.GraphStatement_Select:
			for _, m := range x.Select.Marks {
				if !marks[m] {
					return false
				}
			}
		default:
			txt := s.String()
			for _, m := range []string{"m1", "m2"} {
				if strings.Contains(txt, "$"+m+".") && !marks[m] {
					return false
				}
			}
		}
	}
	return true
}

func c14Typing(cc c14Case) fw.Result {
	alpha := c14Alphabet()
	mc := mongo.NewCompiler(&mongo.Graph{})
	cc0 := core.NewCompiler(&mongo.Graph{})
	res := fw.HeldR(false, "")
	var viol *fw.Result
	var rec func(idx []int)
	rec = func(idx []int) {
		if viol != nil {
			return
		}
		var stmts []*gripql.GraphStatement
		for _, i := range idx {
			stmts = append(stmts, alpha[i].Stmt)
		}
		if c14MarksDefined(stmts) {
			mp, merr := mc.Compile(stmts, nil)
			cp, cerr := cc0.Compile(stmts, nil)
			ms, cs := typeSig(mp, merr), typeSig(cp, cerr)
			res.Count("programs", 1)
			if cerr == nil {
				res.Count("accepted_programs", 1)
				res.Nontrivial = true
			}
			if ms != cs {
				key := "typing:" + stepKey(stmts)
				r := fw.ViolatedR(key, fmt.Sprintf("%s: MongoDB compiler: %s; core compiler: %s (mongo error: %v; core error: %v)", progNames(alpha, idx), ms, cs, merr, cerr),
					map[string]interface{}{"program": progNames(alpha, idx), "mongo": ms, "core": cs})
				viol = &r
				return
			}
			if cerr != nil {
				return // every extension is rejected for the same reason by both
			}
		}
		if len(idx) >= cc.Len {
			return
		}
		for j := range alpha {
			if alpha[j].Start && len(idx) > 1 {
				continue
			}
			rec(append(append([]int{}, idx...), j))
		}
	}
	rec(cc.Prefix)
	if viol != nil {
		return *viol
	}
	return res
}

func c14Filter(cc c14Case) fw.Result {
	e := &gripql.HasExpression{}
	if err := protojson.Unmarshal(cc.Expr, e); err != nil {
		panic(err)
	}
	filter := mongo.VerifConvertHasExpression(e)
	res := fw.HeldR(true, "")
	var diffs []string
	kinds := map[string]bool{}
	for _, dv := range c14DocValues {
		if cc.NoNumText && kindOf(dv.V, dv.Missing) == "numtext" {
			continue
		}
		data := map[string]interface{}{"other": 1.0}
		if !dv.Missing {
			data["p"] = dv.V
		}
		trav := (&gdbi.BaseTraveler{}).AddCurrent(&gdbi.DataElement{ID: "d1", Label: "L", Data: data, Loaded: true})
		coreKeeps := logic.MatchesHasExpression(trav, e)
		doc := map[string]interface{}{"_id": "d1", "label": "L", "data": data}
		mongoKeeps, err := model.MongoMatch(filter, doc)
		res.Count("documents_evaluated", 1)
		if err != nil {
			diffs = append(diffs, fmt.Sprintf("p=%s: MongoDB would reject the filter (%v), core keeps=%v", dv.Name, err, coreKeeps))
			kinds["rejected"] = true
			break
		}
		if coreKeeps != mongoKeeps {
			diffs = append(diffs, fmt.Sprintf("p=%s: core keeps=%v, emitted $match keeps=%v", dv.Name, coreKeeps, mongoKeeps))
			kinds[kindOf(dv.V, dv.Missing)] = true
		}
	}
	if len(diffs) > 0 {
		var ks []string
		for k := range kinds {
			ks = append(ks, k)
		}
		sort.Strings(ks)
		fj, _ := json.Marshal(filter)
		key := "filter:" + c14ExprClass(e) + ":doc=" + strings.Join(ks, "+")
		if c14TypeBracketIssue(e, ks) {
			key = "filter:ordering-type-brackets"
		}
		return fw.ViolatedR(key, fmt.Sprintf("has(%s) -> $match %s: %s", gripql.HasExpressionString(e), gq.Trunc(string(fj), 300), diffs[0]),
			map[string]interface{}{"expr": json.RawMessage(cc.Expr), "match": json.RawMessage(fj), "differences": diffs})
	}
	return res
}

// c14TypeBracketIssue recognises the trigger of the known finding: an ordering
// or range condition whose argument is not a number, or numeric-text documents.
func c14TypeBracketIssue(e *gripql.HasExpression, docKinds []string) bool {
	hasOrdering, nonNumberArg := false, false
	var walk func(x *gripql.HasExpression)
	walk = func(x *gripql.HasExpression) {
		if x == nil {
			return
		}
		switch y := x.Expression.(type) {
		case *gripql.HasExpression_And:
			for _, s := range y.And.GetExpressions() {
				walk(s)
			}
		case *gripql.HasExpression_Or:
			for _, s := range y.Or.GetExpressions() {
				walk(s)
			}
		case *gripql.HasExpression_Not:
			walk(y.Not)
		case *gripql.HasExpression_Condition:
			switch y.Condition.GetCondition().String() {
			case "GT", "GTE", "LT", "LTE":
				hasOrdering = true
				if _, ok := y.Condition.GetValue().AsInterface().(float64); !ok {
					nonNumberArg = true
				}
			case "INSIDE", "OUTSIDE", "BETWEEN":
				hasOrdering = true
				if lst, ok := y.Condition.GetValue().AsInterface().([]interface{}); ok && len(lst) == 2 {
					for _, b := range lst {
						if _, ok := b.(float64); !ok {
							nonNumberArg = true
						}
					}
				}
			}
		}
	}
	walk(e)
	if !hasOrdering {
		return false
	}
	onlyNumText := true
	for _, k := range docKinds {
		if k != "numtext" {
			onlyNumText = false
		}
	}
	return nonNumberArg || onlyNumText
}

// c14ExprClass names the structural class of an expression for finding keys.
func c14ExprClass(e *gripql.HasExpression) string {
	ops := map[string]bool{}
	var walk func(x *gripql.HasExpression, depth int)
	walk = func(x *gripql.HasExpression, depth int) {
		if x == nil {
			return
		}
		switch y := x.Expression.(type) {
		case *gripql.HasExpression_And:
			for _, s := range y.And.GetExpressions() {
				walk(s, depth+1)
			}
		case *gripql.HasExpression_Or:
			for _, s := range y.Or.GetExpressions() {
				walk(s, depth+1)
			}
		case *gripql.HasExpression_Not:
			if _, nested := y.Not.GetExpression().(*gripql.HasExpression_Not); nested {
				ops["not-not"] = true
			}
			walk(y.Not, depth+1)
		case *gripql.HasExpression_Condition:
			c := y.Condition
			arg := argKind(c.GetValue().AsInterface())
			ops[c.GetCondition().String()+"("+arg+")"] = true
		}
	}
	walk(e, 0)
	var l []string
	for k := range ops {
		l = append(l, k)
	}
	sort.Strings(l)
	if len(l) > 3 {
		l = l[:3]
	}
	return strings.Join(l, ",")
}

func c14Exec(w *fw.Worker, c fw.Case) fw.Result {
	var cc c14Case
	c.Decode(&cc)
	if c.Kind == "typing" {
		return c14Typing(cc)
	}
	return c14Filter(cc)
}

func init() {
	fw.Register(&fw.Property{
		ID:   "C14",
		Rule: "typing: every statement sequence of length <= 4 (quick) / <= 5 (thorough) over a 68-instance alphabet of the steps the Mongo compiler supports (one case per 2-step prefix, the worker enumerates all extensions, pruned below a prefix both compilers reject), marks defined before use, compiled by mongo.NewCompiler(&mongo.Graph{}) and by the core compiler: accept/reject, result type and mark types must agree. filters: every operator x argument leaf (90+), with not and double not, pairs under and/or/not, 3000 / 60000 random trees of depth <= 3; the $match document emitted by convertHasExpression (verif hook) is evaluated by a MongoDB-semantics interpreter on 14 scalar documents (missing, null, booleans, numbers, strings incl. numeric text) and compared with logic.MatchesHasExpression. Non-trivial = a typing case with at least one accepted program / every filter case.",
		Assumptions: []string{
			"trusted base: the $match interpreter harness/model/mongomatch.go (standard MongoDB scalar semantics: type-bracketed comparisons, $ne/$not/$nin match missing fields, $eq null matches missing) - no MongoDB exists in the sandbox to cross-check it",
			"programs that select or reference an undefined mark are outside the property and skipped",
			"jump/set/increment/mark fall back to the core compiler by design and are not in the alphabet",
		},
		BatchSize:   60,
		CaseTimeout: 300 * time.Second,
		Gen:         c14Gen,
		Exec:        c14Exec,
		Sample: func(c fw.Case, r fw.Result) interface{} {
			var cc c14Case
			c.Decode(&cc)
			if c.Kind == "typing" {
				return map[string]interface{}{"kind": "typing", "prefix": progNames(c14Alphabet(), cc.Prefix), "max_length": cc.Len, "programs_compared": r.Counters["programs"], "accepted": r.Counters["accepted_programs"]}
			}
			return map[string]interface{}{"kind": "filter", "expr": cc.Expr, "documents": r.Counters["documents_evaluated"]}
		},
	})
}
