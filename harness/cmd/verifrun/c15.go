package main

import (
	"context"
	"encoding/json"
	"fmt"
	"io"
	stdlog "log"
	"math/rand"
	"net"
	"sort"
	"strings"
	"time"

	"github.com/bmeg/grip/engine/core"
	"github.com/bmeg/grip/gdbi"
	"github.com/bmeg/grip/gripper"
	"github.com/bmeg/grip/gripql"
	"google.golang.org/grpc"
	"google.golang.org/grpc/credentials/insecure"
	"google.golang.org/protobuf/types/known/structpb"

	"verifharness/deco"
	"verifharness/fw"
	"verifharness/gq"
	"verifharness/model"
)

// C15 – a gripper-mapped graph is exactly the graph its mapping describes.
//
// Tables are served by the repository's own SimpleTableServicer (DriverPreLoad
// tables) on a loopback gRPC listener inside the worker; the mapped graph is
// gripper.NewTabularGraph. The oracle is the materialised graph computed from
// (tables, mapping) by c15World.Model – one vertex per row, one edge per link row
// with non-empty string endpoints – (a) observed through every read method of
// gdbi.GraphInterface, (b) queried with the C01 reference interpreter and (c)
// loaded into the embedded store (kvgraph/Badger) and queried there.

type c15Table struct {
	Name string       `json:"name"`
	Rows map[string]M `json:"rows"`
}

type c15VMap struct {
	Prefix string `json:"prefix"`
	Label  string `json:"label"`
	Table  string `json:"table"`
}

type c15EMap struct {
	Name      string `json:"name"`
	From      string `json:"from"`
	To        string `json:"to"`
	Label     string `json:"label"`
	Table     string `json:"table"`
	FromField string `json:"fromField"`
	ToField   string `json:"toField"`
}

type c15World struct {
	Name   string     `json:"name"`
	Tables []c15Table `json:"tables"`
	V      []c15VMap  `json:"vertices"`
	E      []c15EMap  `json:"edges"`
}

func (w *c15World) table(n string) *c15Table {
	for i := range w.Tables {
		if w.Tables[i].Name == n {
			return &w.Tables[i]
		}
	}
	return nil
}

func sortedRowKeys(m map[string]M) []string {
	var ks []string
	for k := range m {
		ks = append(ks, k)
	}
	sort.Strings(ks)
	return ks
}

// Model materialises the graph the mapping describes. Edges whose id occurs
// more than once (repeated links) are kept as separate elements under the
// keys id, id\x00 2, ...; dup lists those ids.
func (w *c15World) Model() (g *model.Graph, dup map[string]bool) {
	g = model.NewGraph()
	dup = map[string]bool{}
	for _, vm := range w.V {
		t := w.table(vm.Table)
		for _, rid := range sortedRowKeys(t.Rows) {
			g.V[vm.Prefix+rid] = mv(vm.Prefix+rid, vm.Label, model.CloneJSON(t.Rows[rid]).(M))
		}
	}
	for _, em := range w.E {
		t := w.table(em.Table)
		for _, rid := range sortedRowKeys(t.Rows) {
			row := t.Rows[rid]
			f, ok1 := row[em.FromField].(string)
			to, ok2 := row[em.ToField].(string)
			if !ok1 || !ok2 || f == "" || to == "" {
				continue
			}
			id := em.From + f + "-" + em.Label + "-" + em.To + to
			e := me(id, em.Label, em.From+f, em.To+to, model.CloneJSON(row).(M))
			key := id
			for n := 2; g.E[key] != nil; n++ {
				dup[id] = true
				key = fmt.Sprintf("%s\x00%d", id, n)
			}
			g.E[key] = e
		}
	}
	return g, dup
}

var c15TA = M{
	"1": M{"p": 1.0, "s": "x", "l": []interface{}{1.0, "a", nil}, "n": M{"k": 2.0, "d": M{"e": "deep"}}, "b": true},
	"2": M{"p": 2.0, "s": "y", "l": []interface{}{}},
	"3": M{"s": "", "p": 1.0, "z": nil},
}
var c15TC = M{
	"1": M{"p": "1", "s": "x"},
	"2": M{"p": -1.5, "b": false, "l": "notalist"},
}
var c15L = M{
	"r1": M{"f": "1", "t": "2", "w": 1.0, "p": 1.0},
	"r2": M{"f": "1", "t": "1", "p": 2.0, "s": "x"},
	"r3": M{"f": "2", "t": "9"}, // target row absent
	"r4": M{"f": "", "t": "1"},  // empty endpoint
	"r5": M{"t": "2", "p": 1.0}, // missing endpoint
	"r6": M{"f": 3.0, "t": "1"}, // non-string endpoint
	"r7": M{"f": "9", "t": "9"}, // both rows absent
	"r8": M{"f": "3", "t": "2", "s": "y"},
}
var c15L2 = M{
	"k1": M{"src": "2", "dst": "1", "p": 1.0},
	"k2": M{"src": "1", "dst": "3"},
	"k3": M{"src": "2", "dst": "2", "s": "x"},
	"k4": M{"src": nil, "dst": "1"},
}

func rowsOf(m M) map[string]M {
	o := map[string]M{}
	for k, v := range m {
		o[k] = model.CloneJSON(v).(M)
	}
	return o
}

func c15Library() []*c15World {
	ta := c15Table{"TA", rowsOf(c15TA)}
	tc := c15Table{"TC", rowsOf(c15TC)}
	l1 := c15Table{"L", rowsOf(c15L)}
	l2 := c15Table{"L2", rowsOf(c15L2)}
	empty := c15Table{"TE", map[string]M{}}
	rep := c15Table{"LR", map[string]M{
		"a": M{"f": "1", "t": "2", "p": 1.0},
		"b": M{"f": "1", "t": "2", "p": 1.0},
		"c": M{"f": "1", "t": "2", "p": 2.0, "s": "x"},
		"d": M{"f": "2", "t": "1"},
	}}
	dashV := c15Table{"TD", map[string]M{"x-1": M{"p": 1.0, "s": "x"}, "y-2": M{"p": 2.0}, "1": M{"p": 1.0}}}
	dashL := c15Table{"LD", map[string]M{"q1": M{"f": "x-1", "t": "y-2", "p": 1.0}, "q2": M{"f": "1", "t": "x-1"}, "q3": M{"f": "1", "t": "1"}}}
	// more requests than the channel multiplexer buffers (250), some to rows that do not exist
	wideA := c15Table{"WA", map[string]M{}}
	wideD := c15Table{"WD", map[string]M{}}
	wideL := c15Table{"WL", map[string]M{}}
	wideX := c15Table{"WX", map[string]M{}}
	for i := 1; i <= 600; i++ {
		id := fmt.Sprint(i)
		wideA.Rows[id] = M{"p": float64(i % 3), "s": "x"}
		wideD.Rows[id] = M{"p": 1.0}
		wideL.Rows["l"+id] = M{"f": id, "t": id}
		if i%40 == 1 {
			wideX.Rows["x"+id] = M{"f": id, "t": "9"} // row 9 of TC does not exist
		}
	}
	return []*c15World{
		{Name: "wide-with-dangling-links", Tables: []c15Table{wideA, wideD, tc, wideL, wideX}, V: []c15VMap{{"a", "P", "WA"}, {"d", "Q", "WD"}, {"c", "Q", "TC"}},
			E: []c15EMap{{"e1", "a", "d", "r", "WL", "f", "t"}, {"e2", "a", "c", "s", "WX", "f", "t"}}},
		{Name: "no-rows", Tables: []c15Table{empty}, V: []c15VMap{{"a", "P", "TE"}}},
		{Name: "single", Tables: []c15Table{ta}, V: []c15VMap{{"a", "P", "TA"}}},
		{Name: "basic", Tables: []c15Table{ta, tc, l1}, V: []c15VMap{{"a", "P", "TA"}, {"c", "Q", "TC"}},
			E: []c15EMap{{"e1", "a", "c", "r", "L", "f", "t"}}},
		{Name: "both-directions", Tables: []c15Table{ta, tc, l1}, V: []c15VMap{{"a", "P", "TA"}, {"c", "Q", "TC"}},
			E: []c15EMap{{"e1", "a", "c", "r", "L", "f", "t"}, {"e2", "c", "a", "s", "L", "t", "f"}}},
		{Name: "shared-label", Tables: []c15Table{ta, tc, l1, l2}, V: []c15VMap{{"a", "P", "TA"}, {"c", "P", "TC"}},
			E: []c15EMap{{"e1", "a", "c", "r", "L", "f", "t"}, {"e2", "c", "a", "s", "L2", "src", "dst"}}},
		{Name: "prefix-overlap", Tables: []c15Table{ta, tc, l1, l2}, V: []c15VMap{{"a", "P", "TA"}, {"ab", "Q", "TC"}, {"c", "Q", "TC"}},
			E: []c15EMap{{"e1", "a", "ab", "r", "L", "f", "t"}, {"e2", "ab", "a", "s", "L2", "src", "dst"}, {"e3", "a", "c", "r", "L", "f", "t"}}},
		{Name: "self", Tables: []c15Table{ta, l1}, V: []c15VMap{{"a", "P", "TA"}},
			E: []c15EMap{{"e1", "a", "a", "r", "L", "f", "t"}}},
		{Name: "repeated-links", Tables: []c15Table{ta, tc, rep}, V: []c15VMap{{"a", "P", "TA"}, {"c", "Q", "TC"}},
			E: []c15EMap{{"e1", "a", "c", "r", "LR", "f", "t"}}},
		{Name: "same-table-twice", Tables: []c15Table{ta, l1}, V: []c15VMap{{"a", "P", "TA"}, {"c", "Q", "TA"}},
			E: []c15EMap{{"e1", "a", "c", "r", "L", "f", "t"}, {"e2", "c", "c", "s", "L", "f", "t"}}},
		{Name: "dash-ids", Tables: []c15Table{dashV, dashL}, V: []c15VMap{{"a", "P", "TD"}, {"c", "Q", "TD"}},
			E: []c15EMap{{"e1", "a", "c", "r", "LD", "f", "t"}}},
		{Name: "two-link-tables-one-label", Tables: []c15Table{ta, tc, l1, l2}, V: []c15VMap{{"a", "P", "TA"}, {"c", "Q", "TC"}},
			E: []c15EMap{{"e1", "a", "c", "r", "L", "f", "t"}, {"e2", "a", "c", "r", "L2", "dst", "src"}}},
		{Name: "vertex-label-is-edge-label", Tables: []c15Table{ta, tc, l1}, V: []c15VMap{{"a", "r", "TA"}, {"c", "Q", "TC"}},
			E: []c15EMap{{"e1", "c", "a", "r", "L", "f", "t"}, {"e2", "a", "a", "Q", "L", "t", "f"}}},
	}
}

var c15LibN = len(c15Library())

func c15RandomWorld(seed int64, idx int) *c15World {
	rng := rand.New(rand.NewSource(seed*7919 + int64(idx)*13 + 5))
	w := &c15World{Name: fmt.Sprintf("rand%d", idx)}
	vals := []M{c15TA["1"].(M), c15TA["2"].(M), c15TA["3"].(M), c15TC["1"].(M), c15TC["2"].(M), {}}
	ids := []string{"1", "2", "3", "4"}
	vtabs := []string{"TA", "TC", "TD"}
	for _, tn := range vtabs {
		t := c15Table{Name: tn, Rows: map[string]M{}}
		for _, id := range ids {
			if rng.Intn(3) > 0 {
				t.Rows[id] = model.CloneJSON(vals[rng.Intn(len(vals))]).(M)
			}
		}
		w.Tables = append(w.Tables, t)
	}
	prefixes := []string{"a", "ab", "c"}
	rng.Shuffle(len(prefixes), func(i, j int) { prefixes[i], prefixes[j] = prefixes[j], prefixes[i] })
	nv := 1 + rng.Intn(3)
	labels := []string{"P", "Q", "r"}
	for i := 0; i < nv; i++ {
		w.V = append(w.V, c15VMap{prefixes[i], labels[rng.Intn(len(labels))], vtabs[rng.Intn(len(vtabs))]})
	}
	ends := []interface{}{"1", "2", "3", "4", "9", "", nil, 2.0}
	ne := rng.Intn(4)
	elabels := []string{"r", "s", "P"}
	for i := 0; i < ne; i++ {
		tn := fmt.Sprintf("L%d", i)
		t := c15Table{Name: tn, Rows: map[string]M{}}
		// the first row always has string endpoints: the table service derives its searchable fields from the data
		t.Rows["k0"] = M{"f": ids[rng.Intn(3)], "t": ids[rng.Intn(3)], "p": 1.0}
		for k := 1; k < 1+rng.Intn(6); k++ {
			row := M{"p": float64(rng.Intn(3)), "s": []string{"x", "y", ""}[rng.Intn(3)]}
			if e := ends[rng.Intn(len(ends))]; e != nil || rng.Intn(2) == 0 {
				row["f"] = e
			}
			if e := ends[rng.Intn(len(ends))]; e != nil || rng.Intn(2) == 0 {
				row["t"] = e
			}
			t.Rows[fmt.Sprintf("k%d", k)] = row
		}
		w.Tables = append(w.Tables, t)
		em := c15EMap{Name: fmt.Sprintf("e%d", i), From: w.V[rng.Intn(nv)].Prefix, To: w.V[rng.Intn(nv)].Prefix, Label: elabels[rng.Intn(len(elabels))], Table: tn, FromField: "f", ToField: "t"}
		if rng.Intn(3) == 0 {
			em.FromField, em.ToField = "t", "f"
		}
		w.E = append(w.E, em)
	}
	if ne >= 2 && rng.Intn(2) == 0 { // the same link table mapped a second time
		em := w.E[0]
		em.Name = "e9"
		em.From, em.To = em.To, em.From
		em.FromField, em.ToField = em.ToField, em.FromField
		em.Label = elabels[rng.Intn(len(elabels))]
		w.E = append(w.E, em)
	}
	return w
}

func c15WorldByIndex(seed int64, idx int) *c15World {
	lib := c15Library()
	if idx < len(lib) {
		return lib[idx]
	}
	return c15RandomWorld(seed, idx)
}

// ---------------------------------------------------------------------------
// alphabet: the C01 steps over the fixed vocabulary of the worlds

func c15Alphabet() []stepDef {
	q := gripql.NewQuery()
	rmap, _ := structpb.NewValue(map[string]interface{}{"g": "_gid", "p": "p", "m": "$m1.p", "l": "_label", "f": "_from", "t": "_to"})
	rstr, _ := structpb.NewValue("_gid")
	return []stepDef{
		{"V()", st(q.V()), true, false},
		{"V(a1)", st(q.V("a1")), true, false},
		{"V(c2,zz,a1,a9,ab1)", st(q.V("c2", "zz", "a1", "a9", "ab1")), true, false},
		{"V(a)", st(q.V("a")), true, false},
		{"E()", st(q.E()), true, false},
		{"E(a1-r-c2)", st(q.E("a1-r-c2")), true, false},
		{"E(a1-r-c1,zz,c2-s-a1,a1-r-ab2,a1-r)", st(q.E("a1-r-c1", "zz", "c2-s-a1", "a1-r-ab2", "a1-r")), true, false},
		{"hasLabel(P)", st(q.HasLabel("P")), false, false},
		{"hasLabel(Q)", st(q.HasLabel("Q")), false, false},
		{"hasLabel(Q,r)", st(q.HasLabel("Q", "r")), false, false},
		{"hasLabel(r)", st(q.HasLabel("r")), false, false},
		{"hasLabel(s,P)", st(q.HasLabel("s", "P")), false, false},
		{"hasLabel(nolabel)", st(q.HasLabel("nolabel")), false, false},
		{"hasId(a1)", st(q.HasID("a1")), false, false},
		{"hasId(c2,a1-r-c2)", st(q.HasID("c2", "a1-r-c2")), false, false},
		{"out()", st(q.Out()), false, false},
		{"out(r)", st(q.Out("r")), false, false},
		{"out(s,nolabel)", st(q.Out("s", "nolabel")), false, false},
		{"in()", st(q.In()), false, false},
		{"in(r)", st(q.In("r")), false, false},
		{"both()", st(q.Both()), false, false},
		{"both(s)", st(q.Both("s")), false, false},
		{"outE()", st(q.OutE()), false, false},
		{"outE(r)", st(q.OutE("r")), false, false},
		{"inE()", st(q.InE()), false, false},
		{"inE(r,s)", st(q.InE("r", "s")), false, false},
		{"bothE()", st(q.BothE()), false, false},
		{"has(eq(p,1))", st(q.Has(cond("EQ", "p", 1.0))), false, false},
		{"has(eq(_label,P))", st(q.Has(cond("EQ", "_label", "P"))), false, false},
		{"has(neq(_gid,a1))", st(q.Has(cond("NEQ", "_gid", "a1"))), false, false},
		{"has(eq(_to,c2))", st(q.Has(cond("EQ", "_to", "c2"))), false, false},
		{"has(within(s,[x,y]))", st(q.Has(cond("WITHIN", "s", l("x", "y")))), false, false},
		{"hasKey(p)", st(q.HasKey("p")), false, false},
		{"as(m1)", st(q.As("m1")), false, false},
		{"select(m1)", st(q.Select("m1")), false, false},
		{"fields(p,s)", st(q.Fields("p", "s")), false, false},
		{"render(_gid)", &gripql.GraphStatement{Statement: &gripql.GraphStatement_Render{Render: rstr}}, false, false},
		{"render(map)", &gripql.GraphStatement{Statement: &gripql.GraphStatement_Render{Render: rmap}}, false, false},
		{"path()", &gripql.GraphStatement{Statement: &gripql.GraphStatement_Path{Path: &structpb.ListValue{}}}, false, false},
		{"unwind(l)", &gripql.GraphStatement{Statement: &gripql.GraphStatement_Unwind{Unwind: "l"}}, false, false},
		{"distinct(p)", st(q.Distinct("p")), false, true},
		{"count()", st(q.Count()), false, true},
		{"limit(1)", st(q.Limit(1)), false, true},
		{"range(1,3)", st(q.Range(1, 3)), false, true},
	}
}

type c15Case struct {
	Stmts  []json.RawMessage `json:"stmts,omitempty"`
	Worlds []int             `json:"worlds"`
	Names  string            `json:"names,omitempty"`
}

func c15Gen(g *fw.GenCtx) []fw.Case {
	alpha := c15Alphabet()
	var starts, rest []int
	for i, s := range alpha {
		if s.Start {
			starts = append(starts, i)
		} else {
			rest = append(rest, i)
		}
	}
	nRand := g.Pick(24, 300)
	rng := rand.New(rand.NewSource(g.Seed*101 + 15))
	var cases []fw.Case
	for i := 0; i < c15LibN+nRand; i++ {
		cases = append(cases, fw.MkCase("obs", c15Case{Worlds: []int{i}}))
	}
	pick := func(k int) []int {
		ws := []int{rng.Intn(c15LibN)}
		for len(ws) < k {
			if rng.Intn(3) == 0 {
				ws = append(ws, rng.Intn(c15LibN))
			} else {
				ws = append(ws, c15LibN+rng.Intn(nRand))
			}
		}
		return ws
	}
	nDistinct := 0
	add := func(idx []int, k int) {
		var stmts []*gripql.GraphStatement
		for _, i := range idx {
			stmts = append(stmts, alpha[i].Stmt)
			if strings.HasPrefix(alpha[i].Name, "distinct") {
				k = 1
			}
		}
		if k == 1 && strings.Contains(progNames(alpha, idx), "distinct") {
			nDistinct++
			if g.Quick() && nDistinct%4 != 0 {
				return
			}
		}
		if c01Unspecified(stmts) {
			return
		}
		if _, _, err := model.TypeCheck(stmts); err != nil {
			return // rejection of ill-typed programs is C01's business
		}
		if _, err := model.Eval(model.NewGraph(), stmts); err != nil {
			return
		}
		cases = append(cases, fw.MkCase("prog", c15Case{Stmts: gq.StmtJSON(stmts), Worlds: pick(k), Names: progNames(alpha, idx)}))
	}
	// every start, every start+step, every start+step+step (the driver plans leading hasLabel runs itself)
	for _, s := range starts {
		add([]int{s}, 4)
		for _, a := range rest {
			add([]int{s, a}, 3)
			for _, b := range rest {
				isLabel := strings.HasPrefix(alpha[a].Name, "hasLabel") || strings.HasPrefix(alpha[b].Name, "hasLabel")
				if g.Quick() && !isLabel && rng.Intn(3) != 0 {
					continue
				}
				add([]int{s, a, b}, 2)
			}
		}
	}
	// leading hasLabel runs of length 2 and 3 followed by one more step
	var hl []int
	for _, r := range rest {
		if strings.HasPrefix(alpha[r].Name, "hasLabel") {
			hl = append(hl, r)
		}
	}
	for _, s := range starts {
		for _, a := range hl {
			for _, b := range hl {
				for _, c := range rest {
					if g.Quick() && rng.Intn(2) != 0 {
						continue
					}
					add([]int{s, a, b, c}, 2)
				}
			}
		}
	}
	n := g.Pick(1500, 40000)
	for i := 0; i < n; i++ {
		ln := 4 + rng.Intn(5)
		idx := []int{starts[rng.Intn(len(starts))]}
		stmts := []*gripql.GraphStatement{alpha[idx[0]].Stmt}
		for tries := 0; len(idx) < ln && tries < 200; tries++ {
			c := rest[rng.Intn(len(rest))]
			if alpha[c].Tail && len(idx) < ln-2 {
				continue
			}
			cand := append(append([]*gripql.GraphStatement{}, stmts...), alpha[c].Stmt)
			if _, _, err := model.TypeCheck(cand); err != nil {
				continue
			}
			if _, err := model.Eval(model.NewGraph(), cand); err != nil {
				continue
			}
			if c01Unspecified(cand) {
				continue
			}
			idx = append(idx, c)
			stmts = cand
		}
		add(idx, 3)
	}
	return cases
}

// ---------------------------------------------------------------------------
// execution

type c15Live struct {
	world *c15World
	mg    *model.Graph
	dup   map[string]bool
	tg    *gripper.TabularGraph
	gdb   *gripper.TabularGDB
	twin  gdbi.GraphInterface // nil when the graph has repeated links (the store cannot hold two edges with one id)
	srv   *grpc.Server
	conn  *grpc.ClientConn
}

type c15Env struct {
	db    gdbi.GraphDB
	lives map[int]*c15Live
}

func c15Setup(w *fw.Worker) *c15Env {
	return w.State("c15", func() interface{} {
		stdlog.SetOutput(io.Discard) // SimpleTableServicer logs every row request with the standard logger
		db, err := gq.OpenBadger(w.NewDir("c15twin"))
		if err != nil {
			panic(err)
		}
		return &c15Env{db: db, lives: map[int]*c15Live{}}
	}).(*c15Env)
}

func c15Start(world *c15World) (*c15Live, error) {
	drivers := map[string]gripper.Driver{}
	for _, t := range world.Tables {
		data := map[string]*gripper.BaseRow{}
		for id, row := range t.Rows {
			data[id] = &gripper.BaseRow{Key: id, Value: model.CloneJSON(row).(M)}
		}
		drivers[t.Name] = gripper.NewDriverPreload(data, map[string]string{})
	}
	lis, err := net.Listen("tcp", "127.0.0.1:0")
	if err != nil {
		return nil, err
	}
	srv := grpc.NewServer()
	gripper.RegisterGRIPSourceServer(srv, gripper.NewSimpleTableServer(drivers))
	go srv.Serve(lis)
	conn, err := grpc.Dial(lis.Addr().String(), grpc.WithTransportCredentials(insecure.NewCredentials()))
	if err != nil {
		srv.Stop()
		return nil, err
	}
	conf := &gripper.GraphConfig{Vertices: map[string]gripper.VertexConfig{}, Edges: map[string]gripper.EdgeConfig{}}
	for _, vm := range world.V {
		conf.Vertices[vm.Prefix] = gripper.VertexConfig{Gid: vm.Prefix, Label: vm.Label, Data: gripper.ElementConfig{Source: "src", Collection: vm.Table}}
	}
	for _, em := range world.E {
		conf.Edges[em.Name] = gripper.EdgeConfig{Gid: em.Name, From: em.From, To: em.To, Label: em.Label,
			Data: gripper.ElementConfig{Source: "src", Collection: em.Table, FromField: em.FromField, ToField: em.ToField}}
	}
	sources := map[string]gripper.GRIPSourceClient{"src": gripper.NewGRIPSourceClient(conn)}
	tg, err := gripper.NewTabularGraph(*conf, sources)
	if err != nil {
		conn.Close()
		srv.Stop()
		return nil, fmt.Errorf("NewTabularGraph: %v", err)
	}
	gdb, err := gripper.NewGDBFromConfig("g", conf, sources)
	if err != nil {
		return nil, err
	}
	lv := &c15Live{world: world, tg: tg, gdb: gdb, srv: srv, conn: conn}
	lv.mg, lv.dup = world.Model()
	return lv, nil
}

func (env *c15Env) live(w *fw.Worker, idx int) (*c15Live, error) {
	if lv, ok := env.lives[idx]; ok {
		return lv, nil
	}
	lv, err := c15Start(c15WorldByIndex(w.Seed, idx))
	if err != nil {
		return nil, err
	}
	if len(lv.dup) == 0 {
		// the twin is loaded in two calls (the wide world has 1800 rows)
		name := fmt.Sprintf("w%d", idx)
		if err := env.db.AddGraph(name); err != nil {
			return nil, fmt.Errorf("twin: %v", err)
		}
		twin, err := env.db.Graph(name)
		if err != nil {
			return nil, fmt.Errorf("twin: %v", err)
		}
		var vs []*gdbi.Vertex
		var es []*gdbi.Edge
		for _, k := range sortedModelKeys(lv.mg.V) {
			vs = append(vs, gq.FromModelElem(lv.mg.V[k]))
		}
		for _, k := range sortedModelKeys(lv.mg.E) {
			es = append(es, gq.FromModelElem(lv.mg.E[k]))
		}
		if err := twin.AddVertex(vs); err != nil {
			return nil, fmt.Errorf("twin: %v", err)
		}
		if err := twin.AddEdge(es); err != nil {
			return nil, fmt.Errorf("twin: %v", err)
		}
		lv.twin = twin
	}
	env.lives[idx] = lv
	return lv, nil
}

func (lv *c15Live) universe() model.Universe {
	u := model.Universe{VIDs: []string{"zz", "a9", "a", "", "c"}, EIDs: []string{"zz", "a1-r", "a1-r-c2-x", "--", "", "a-r-c1", "a1-r-c", "a-r-a", "a1-nolabel-c2", "zz1-r-c2"}, VLabels: []string{"nolabel"}, ELabels: []string{"nolabel"}}
	seenL := map[string]bool{}
	big := len(lv.mg.V) > 50 // adjacency questions are asked about a handful of ids only
	for i, id := range sortedModelKeys(lv.mg.V) {
		if !big || i < 4 {
			u.VIDs = append(u.VIDs, id)
		}
		if !seenL[lv.mg.V[id].Label] {
			seenL[lv.mg.V[id].Label] = true
			u.VLabels = append(u.VLabels, lv.mg.V[id].Label)
		}
	}
	seenE := map[string]bool{}
	for _, k := range sortedModelKeys(lv.mg.E) {
		e := lv.mg.E[k]
		if big && len(u.EIDs) > 16 && seenE[e.Label] {
			continue
		}
		if !lv.dup[e.ID] {
			u.EIDs = append(u.EIDs, e.ID)
		}
		if !seenE[e.Label] {
			seenE[e.Label] = true
			u.ELabels = append(u.ELabels, e.Label)
		}
		// dangling endpoints are asked about too
		for _, end := range []string{e.From, e.To} {
			if _, ok := lv.mg.V[end]; !ok && !seenL["\x00"+end] {
				seenL["\x00"+end] = true
				u.VIDs = append(u.VIDs, end)
			}
		}
	}
	for _, vm := range lv.world.V {
		if !seenL[vm.Label] {
			seenL[vm.Label] = true
			u.VLabels = append(u.VLabels, vm.Label)
		}
	}
	return u
}

func sortedModelKeys(m map[string]*model.Elem) []string {
	var ks []string
	for k := range m {
		ks = append(ks, k)
	}
	sort.Strings(ks)
	return ks
}

// c15ObsClass names the interface method a differing observation belongs to.
func c15ObsClass(q string) string {
	q = strings.TrimPrefix(q, "g.")
	if i := strings.IndexAny(q, "("); i >= 0 {
		q = q[:i]
	}
	return q
}

func c15Obs(w *fw.Worker, env *c15Env, widx int) fw.Result {
	lv, err := env.live(w, widx)
	if err != nil {
		if strings.HasPrefix(err.Error(), "twin:") {
			return fw.InconclusiveR("loading the embedded-store twin failed: " + err.Error())
		}
		return fw.ViolatedR("mapping-refused", fmt.Sprintf("world %d: a well-formed mapping was refused: %v", widx, err), c15WorldByIndex(w.Seed, widx))
	}
	res := fw.HeldR(true, "")
	u := lv.universe()
	got := map[string]string{}
	gq.ObserveGraphInto(lv.tg, "g", u, w.NewDir("work"), got)
	want := lv.mg.ObserveGraph("g", u)
	// the mapped labels are listed whether or not a table has rows
	vl := map[string]bool{}
	for _, vm := range lv.world.V {
		vl[vm.Label] = true
	}
	el := map[string]bool{}
	for _, em := range lv.world.E {
		el[em.Label] = true
	}
	want["g.ListVertexLabels"] = model.JoinSorted(keysOf(vl))
	want["g.ListEdgeLabels"] = model.JoinSorted(keysOf(el))
	res.Count("observations", int64(len(want)))
	res.Count("vertices", int64(len(lv.mg.V)))
	res.Count("edges", int64(len(lv.mg.E)))
	if d := model.DiffObs(got, want); len(d) > 0 {
		cls := map[string]bool{}
		for _, q := range model.DiffKeys(d) {
			cls[c15ObsClass(q)] = true
		}
		ks := keysOf(cls)
		return fw.ViolatedR("obs:"+strings.Join(ks, ","), fmt.Sprintf("world %s: %d observations differ from the materialised graph, first: %s", lv.world.Name, len(d), gq.Trunc(d[0], 500)),
			map[string]interface{}{"world": lv.world, "differences": d})
	}
	// write calls are refused and change nothing
	gi, err := lv.gdb.Graph("g")
	if err != nil {
		return fw.InconclusiveR("TabularGDB.Graph: " + err.Error())
	}
	writes := map[string]func() error{
		"AddVertex": func() error { return gi.AddVertex([]*gdbi.Vertex{gq.FromModelElem(mv("a1", "P", M{"p": 9.0}))}) },
		"AddEdge":   func() error { return gi.AddEdge([]*gdbi.Edge{gq.FromModelElem(me("x", "r", "a1", "c2", nil))}) },
		"BulkAdd": func() error {
			ch := make(chan *gdbi.GraphElement, 1)
			ch <- &gdbi.GraphElement{Graph: "g", Vertex: gq.FromModelElem(mv("a7", "P", nil))}
			close(ch)
			return gi.BulkAdd(ch)
		},
		"DelVertex":         func() error { return gi.DelVertex("a1") },
		"DelEdge":           func() error { return gi.DelEdge("a1-r-c2") },
		"AddVertexIndex":    func() error { return gi.AddVertexIndex("P", "p") },
		"DeleteVertexIndex": func() error { return gi.DeleteVertexIndex("P", "p") },
		"AddGraph":          func() error { return lv.gdb.AddGraph("h") },
		"DeleteGraph":       func() error { return lv.gdb.DeleteGraph("g") },
	}
	for _, name := range keysOfF(writes) {
		if err := writes[name](); err == nil {
			return fw.ViolatedR("write-accepted:"+name, fmt.Sprintf("world %s: %s on a gripper graph returned success", lv.world.Name, name), lv.world)
		}
		res.Count("writes_refused", 1)
	}
	if gs := lv.gdb.ListGraphs(); len(gs) != 1 || gs[0] != "g" {
		return fw.ViolatedR("write-effect:ListGraphs", fmt.Sprintf("graphs after refused writes: %v", gs), lv.world)
	}
	after := map[string]string{}
	gq.ObserveGraphInto(lv.tg, "g", u, w.NewDir("work"), after)
	if d := model.DiffObs(after, want); len(d) > 0 {
		return fw.ViolatedR("write-effect", fmt.Sprintf("world %s: observations changed after refused writes: %s", lv.world.Name, gq.Trunc(d[0], 400)), lv.world)
	}
	res.AddSet("worlds", lv.world.Name)
	return res
}

func keysOf(m map[string]bool) []string {
	var ks []string
	for k := range m {
		ks = append(ks, k)
	}
	sort.Strings(ks)
	return ks
}

func keysOfF(m map[string]func() error) []string {
	var ks []string
	for k := range m {
		ks = append(ks, k)
	}
	sort.Strings(ks)
	return ks
}

// c15MentionsDup: E(ids)/hasId on an id that two link rows share is not described.
func c15MentionsDup(stmts []*gripql.GraphStatement, dup map[string]bool) bool {
	if len(dup) == 0 {
		return false
	}
	for _, s := range stmts {
		txt := s.String()
		for id := range dup {
			if strings.Contains(txt, `"`+id+`"`) {
				return true
			}
		}
	}
	return false
}

func c15Prog(w *fw.Worker, env *c15Env, cc c15Case) fw.Result {
	stmts := gq.StmtsFromJSON(cc.Stmts)
	res := fw.HeldR(false, "")
	res.AddSet("step_kinds", strings.Split(stepKey(stmts), ">")...)
	for _, widx := range cc.Worlds {
		lv, err := env.live(w, widx)
		if err != nil && strings.HasPrefix(err.Error(), "twin:") {
			return fw.InconclusiveR("loading the embedded-store twin failed: " + err.Error())
		}
		if err != nil {
			return fw.ViolatedR("mapping-refused", fmt.Sprintf("world %d: a well-formed mapping was refused: %v", widx, err), c15WorldByIndex(w.Seed, widx))
		}
		if c15MentionsDup(stmts, lv.dup) {
			res.Count("skipped_duplicate_id_lookup", 1)
			continue
		}
		rows := gq.Run(context.Background(), lv.tg.Compiler(), stmts, w.NewDir("work"))
		res.Count("executions", 1)
		if rows.CompileErr != "" {
			return fw.ViolatedR("well-typed-rejected:"+stepKey(stmts), fmt.Sprintf("%s was rejected by the gripper compiler: %s", cc.Names, rows.CompileErr), cc)
		}
		exp, err := model.Eval(lv.mg, stmts)
		if err != nil {
			return fw.InconclusiveR("model: " + err.Error())
		}
		got := gq.CanonRows(rows.Rows)
		detail := func() map[string]interface{} {
			return map[string]interface{}{"program": cc.Names, "world": lv.world, "gripper_rows": got, "expected_exact": exp.Exact, "expected_n": exp.N, "pool": exp.Pool}
		}
		if lv.twin != nil {
			// the same traversal on the graph materialised in the embedded store
			lit := &deco.GraphLoad{GraphInterface: lv.twin, Mode: deco.ForceLoad}
			trows := gq.Run(context.Background(), core.NewCompiler(lit), stmts, w.NewDir("work"))
			tgot := gq.CanonRows(trows.Rows)
			if trows.CompileErr != "" || checkRows(exp, tgot) != "" {
				return fw.InconclusiveR(fmt.Sprintf("the embedded-store twin and the reference interpreter disagree on %s (world %s): %s %s", cc.Names, lv.world.Name, trows.CompileErr, checkRows(exp, tgot)))
			}
			res.Count("twin_executions", 1)
			if exp.Exact != nil && !gq.SameMultiset(got, tgot) {
				d := detail()
				d["twin_rows"] = tgot
				return fw.ViolatedR("rows:"+c15Key(stmts), fmt.Sprintf("%s on world %s: gripper %s, embedded-store twin %s", cc.Names, lv.world.Name, gq.Trunc(strings.Join(got, " "), 500), gq.Trunc(strings.Join(tgot, " "), 500)), d)
			}
		}
		if msg := checkRows(exp, got); msg != "" {
			return fw.ViolatedR("rows:"+c15Key(stmts), fmt.Sprintf("%s on world %s: %s", cc.Names, lv.world.Name, msg), detail())
		}
		res.Count("rows_compared", int64(len(got)))
		if len(got) > 0 || len(exp.Pool) > 0 {
			res.Nontrivial = true
		}
	}
	return res
}

// c15Key: the start (with or without ids) and the leading hasLabel run decide
// how the driver plans a traversal; the first step after them is kept too.
func c15Key(stmts []*gripql.GraphStatement) string {
	var k []string
	for i, s := range stmts {
		n := model.StepName(s)
		if i == 0 {
			switch x := s.GetStatement().(type) {
			case *gripql.GraphStatement_V:
				if len(x.V.GetValues()) > 0 {
					n = "V(ids)"
				}
			case *gripql.GraphStatement_E:
				if len(x.E.GetValues()) > 0 {
					n = "E(ids)"
				}
			}
			k = append(k, n)
			continue
		}
		k = append(k, n)
		if _, ok := s.GetStatement().(*gripql.GraphStatement_HasLabel); !ok {
			break
		}
	}
	return strings.Join(k, ">")
}

func c15Exec(w *fw.Worker, c fw.Case) fw.Result {
	var cc c15Case
	c.Decode(&cc)
	env := c15Setup(w)
	if c.Kind == "obs" {
		return c15Obs(w, env, cc.Worlds[0])
	}
	return c15Prog(w, env, cc)
}

func init() {
	fw.Register(&fw.Property{
		ID:   "C15",
		Rule: "table sets x mappings: a 13-world hostile library (600-row tables with links to absent rows, table without rows, shared label, prefixes that are prefixes of each other, self links, one link table mapped in both directions, one collection under two prefixes, repeated links, link rows with absent/empty/missing/non-string endpoints, row ids containing '-', a vertex label equal to an edge label) and 24 / 300 seeded random worlds, each served by the repository's SimpleTableServicer over loopback gRPC. Per world one observation case: every read method of gdbi.GraphInterface over all ids/labels of the world plus absent and malformed ones, compared with the materialised graph; the nine write calls must return an error and change nothing. Programs: every start, start+step and (quick: all with a hasLabel, a third of the rest) start+step+step over a 44-step alphabet, leading hasLabel runs of length 2 followed by any step, and 1500 / 40000 random well-typed programs of length 4-8; each runs through TabularGraph.Compiler() (the driver's own optimizer) on 2-4 worlds and is compared with the reference interpreter on the materialised graph and with the same traversal on that graph loaded into kvgraph/Badger. Non-trivial = non-empty expected result; distinct = distinct (program, worlds).",
		Assumptions: []string{
			"the materialised graph of a mapping: vertex id = mapping key + row id, label = mapped label, data = the row; one edge per link row whose from and to fields are non-empty strings, id = from-vertex-id + '-' + label + '-' + to-vertex-id (gripper/sources.go GenID), data = the row",
			"link rows that yield the same edge id (repeated links) cannot be held by the embedded store: those worlds are compared with the reference interpreter on a multigraph only, and lookups of such an id by E(ids)/hasId are not generated",
			"link tables always contain one row with string endpoints (the table service derives its searchable fields from the data and NewTabularGraph refuses unindexed link fields)",
			"well-typed programs only; rejection of ill-typed programs is C01",
		},
		BatchSize:   250,
		CaseTimeout: 60 * time.Second,
		PeerWaitFrames: []string{
			"google.golang.org/grpc/internal/transport.(*Stream).waitOnHeader",
			"google.golang.org/grpc/internal/transport.(*recvBufferReader).read",
			"google.golang.org/grpc/internal/transport.(*writeQuota).get",
		},
		Gen:  c15Gen,
		Exec: c15Exec,
		Sample: func(c fw.Case, r fw.Result) interface{} {
			var cc c15Case
			c.Decode(&cc)
			return map[string]interface{}{"kind": c.Kind, "program": cc.Names, "worlds": cc.Worlds, "verdict": r.Status, "counters": r.Counters}
		},
	})
}
