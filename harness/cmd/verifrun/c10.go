package main

import (
	"bytes"
	"encoding/hex"
	"fmt"
	"math/rand"
	"sort"
	"strings"
	"time"

	"github.com/bmeg/grip/gdbi"
	"github.com/bmeg/grip/kvgraph"
	"github.com/bmeg/grip/kvi"
	_ "github.com/bmeg/grip/kvi/badgerdb"
	_ "github.com/bmeg/grip/kvi/boltdb"
	_ "github.com/bmeg/grip/kvi/leveldb"
	_ "github.com/bmeg/grip/kvi/pebbledb"

	"verifharness/fw"
	"verifharness/gq"
	"verifharness/model"
)

// C10 – all embedded key-value drivers behave as the same ordered map.

var c10Drivers = []string{"badger", "bolt", "level", "pebble"}

// keys as hex strings in case files
var c10Keys = []string{"a", "aa", "ab", "a\x00", "b", "b\xffz", "\xff"}

var c10Probes = []string{"", "\x00", "a", "a\x00", "a\x00\x00", "aa", "aa\x00", "ab", "az", "b", "b\xff", "b\xffz", "c", "\xff", "\xff\xff", "zzz"}

type kvOp struct {
	Op   string  `json:"op"` // Set Delete DeletePrefix Update Bulk
	K    string  `json:"k,omitempty"`
	V    string  `json:"v,omitempty"`
	Subs []kvSub `json:"subs,omitempty"`
}

type kvSub struct {
	Op string `json:"op"` // Set Delete Get HasKey Walk
	K  string `json:"k,omitempty"`
	V  string `json:"v,omitempty"`
}

func hx(s string) string { return hex.EncodeToString([]byte(s)) }
func unhx(s string) []byte {
	b, err := hex.DecodeString(s)
	if err != nil {
		panic(err)
	}
	return b
}

func c10Alphabet() []kvOp {
	var ops []kvOp
	vals := []string{"x", "", "yy"}
	for i, k := range c10Keys {
		ops = append(ops, kvOp{Op: "Set", K: hx(k), V: hx(vals[i%len(vals)])})
	}
	ops = append(ops, kvOp{Op: "Set", K: hx("a"), V: hx("2")}, kvOp{Op: "Set", K: hx("ab"), V: hx("")})
	for _, k := range []string{"a", "ab", "b", "\xff", "nokey"} {
		ops = append(ops, kvOp{Op: "Delete", K: hx(k)})
	}
	for _, p := range []string{"a", "ab", "a\x00", "", "zz", "\xff", "b"} {
		ops = append(ops, kvOp{Op: "DeletePrefix", K: hx(p)})
	}
	ops = append(ops,
		kvOp{Op: "Update", Subs: []kvSub{{Op: "Set", K: hx("a"), V: hx("t1")}, {Op: "Get", K: hx("a")}, {Op: "HasKey", K: hx("a")}, {Op: "Delete", K: hx("aa")}, {Op: "HasKey", K: hx("aa")}, {Op: "Get", K: hx("aa")}, {Op: "Walk", K: hx("")}}},
		kvOp{Op: "Update", Subs: []kvSub{{Op: "Delete", K: hx("b")}, {Op: "Set", K: hx("b"), V: hx("t2")}, {Op: "Set", K: hx("ab"), V: hx("t3")}, {Op: "Walk", K: hx("a")}, {Op: "HasKey", K: hx("nokey")}}},
		kvOp{Op: "Update", Subs: []kvSub{{Op: "HasKey", K: hx("a")}, {Op: "Get", K: hx("b")}, {Op: "Delete", K: hx("a")}, {Op: "Delete", K: hx("a\x00")}, {Op: "Walk", K: hx("")}}},
		kvOp{Op: "Bulk", Subs: []kvSub{{Op: "Set", K: hx("aa"), V: hx("b1")}, {Op: "Set", K: hx("b"), V: hx("b2")}, {Op: "Set", K: hx("aa"), V: hx("b3")}}},
		kvOp{Op: "Bulk", Subs: []kvSub{{Op: "Set", K: hx("\xff"), V: hx("")}, {Op: "Set", K: hx("a\x00"), V: hx("b4")}}},
		kvOp{Op: "Bulk"},
	)
	return ops
}

type c10Case struct {
	Driver string   `json:"driver"`
	Ops    []kvOp   `json:"ops,omitempty"`
	Fresh  bool     `json:"fresh,omitempty"`
	Hist   *c03Case `json:"hist,omitempty"`
	Prog   *c01Case `json:"prog,omitempty"`
	Volume int      `json:"volume,omitempty"` // this many keys under one prefix
}

func c10Gen(g *fw.GenCtx) []fw.Case {
	var cases []fw.Case
	alpha := c10Alphabet()
	depth := g.Pick(2, 3)
	for _, d := range c10Drivers {
		var rec func(p []kvOp, n int)
		rec = func(p []kvOp, n int) {
			if n == 0 {
				cases = append(cases, fw.MkCase("kv", c10Case{Driver: d, Ops: append([]kvOp{}, p...)}))
				return
			}
			for _, o := range alpha {
				rec(append(p, o), n-1)
			}
		}
		rec(nil, depth)
		rng := rand.New(rand.NewSource(g.Seed*389 + 1))
		n := g.Pick(300, 20000)
		for i := 0; i < n; i++ {
			ln := 10 + rng.Intn(31)
			var ops []kvOp
			for j := 0; j < ln; j++ {
				ops = append(ops, alpha[rng.Intn(len(alpha))])
			}
			cases = append(cases, fw.MkCase("kv", c10Case{Driver: d, Ops: ops, Fresh: i%20 == 0}))
		}
	}
	// more keys under one prefix than the adapters' internal block size (10000)
	for _, d := range c10Drivers {
		for _, n := range []int{9998, 9999, 10000, 10001, 20005} {
			if g.Quick() && (n == 9998 || n == 10000) {
				continue
			}
			cases = append(cases, fw.MkCase("volume", c10Case{Driver: d, Volume: n}))
		}
	}
	// cross-driver half: C03 histories and C01 programs on every driver
	gg := &fw.GenCtx{Tier: "quick", Seed: g.Seed, Avoid: map[string]bool{"c03-same-id-twice-in-one-batch": true}}
	hist := c03Histories(gg, c03Alphabet(gg.Avoid))
	rng := rand.New(rand.NewSource(g.Seed*811 + 5))
	nh := g.Pick(100, 3000)
	for i := 0; i < nh; i++ {
		h := hist[rng.Intn(len(hist))]
		h.Fresh = false
		for _, d := range c10Drivers {
			hc := h
			cases = append(cases, fw.MkCase("hist", c10Case{Driver: d, Hist: &hc}))
		}
	}
	progs := c01Gen(gg)
	np := g.Pick(200, 5000)
	for i := 0; i < np; i++ {
		var pc c01Case
		progs[rng.Intn(len(progs))].Decode(&pc)
		if strings.Contains(pc.Names, "distinct") && i%4 != 0 {
			continue
		}
		for _, d := range c10Drivers {
			p := pc
			cases = append(cases, fw.MkCase("prog", c10Case{Driver: d, Prog: &p}))
		}
	}
	return cases
}

// ---------------------------------------------------------------------------

type kvModel map[string]string

func (m kvModel) sorted() []string {
	var ks []string
	for k := range m {
		ks = append(ks, k)
	}
	sort.Strings(ks)
	return ks
}

func (m kvModel) walk(from string, reverse bool) []string {
	ks := m.sorted()
	var out []string
	if !reverse {
		for _, k := range ks {
			if k >= from {
				out = append(out, hx(k)+"="+hx(m[k]))
			}
		}
	} else {
		for i := len(ks) - 1; i >= 0; i-- {
			if ks[i] <= from {
				out = append(out, hx(ks[i])+"="+hx(m[ks[i]]))
			}
		}
	}
	if len(out) > 6 {
		out = out[:6]
	}
	return out
}

func walkIt(it kvi.KVIterator, from []byte, reverse bool) []string {
	var out []string
	if reverse {
		it.SeekReverse(from)
	} else {
		it.Seek(from)
	}
	for n := 0; it.Valid() && n < 6; n++ {
		v, err := it.Value()
		s := hx(string(it.Key())) + "=" + hx(string(v))
		if err != nil {
			s += "!" + err.Error()
		}
		out = append(out, s)
		it.Next()
	}
	return out
}

func (m kvModel) observe() map[string]string {
	obs := map[string]string{}
	for _, k := range c10Probes {
		if k == "" {
			continue
		}
		v, ok := m[k]
		if ok {
			obs["Get("+hx(k)+")"] = "ok:" + hx(v)
		} else {
			obs["Get("+hx(k)+")"] = "absent"
		}
		obs["HasKey("+hx(k)+")"] = fmt.Sprint(ok)
		obs["it.Get("+hx(k)+")"] = obs["Get("+hx(k)+")"]
	}
	for _, k := range c10Probes {
		obs["Seek("+hx(k)+")"] = strings.Join(m.walk(k, false), " ")
		obs["SeekReverse("+hx(k)+")"] = strings.Join(m.walk(k, true), " ")
	}
	// several seeks inside one View: each must stand on its own
	obs["Seek(a);Seek(zzz)"] = strings.Join(m.walk("zzz", false), " ")
	obs["Seek(zzz);Seek(a)"] = strings.Join(m.walk("a", false), " ")
	obs["SeekReverse(b);Seek(aa)"] = strings.Join(m.walk("aa", false), " ")
	obs["Seek(a);SeekReverse(00)"] = strings.Join(m.walk("\x00", true), " ")
	return obs
}

func getStr(v []byte, err error) string {
	if err != nil {
		return "absent"
	}
	return "ok:" + hx(string(v))
}

func observeKV(kv kvi.KVInterface) map[string]string {
	obs := map[string]string{}
	for _, k := range c10Probes {
		if k == "" {
			continue
		}
		obs["Get("+hx(k)+")"] = getStr(kv.Get([]byte(k)))
		obs["HasKey("+hx(k)+")"] = fmt.Sprint(kv.HasKey([]byte(k)))
	}
	kv.View(func(it kvi.KVIterator) error {
		for _, k := range c10Probes {
			if k != "" {
				obs["it.Get("+hx(k)+")"] = getStr(it.Get([]byte(k)))
			}
		}
		return nil
	})
	for _, k := range c10Probes {
		k := k
		kv.View(func(it kvi.KVIterator) error {
			obs["Seek("+hx(k)+")"] = strings.Join(walkIt(it, []byte(k), false), " ")
			return nil
		})
		kv.View(func(it kvi.KVIterator) error {
			obs["SeekReverse("+hx(k)+")"] = strings.Join(walkIt(it, []byte(k), true), " ")
			return nil
		})
	}
	kv.View(func(it kvi.KVIterator) error {
		it.Seek([]byte("a"))
		obs["Seek(a);Seek(zzz)"] = strings.Join(walkIt(it, []byte("zzz"), false), " ")
		return nil
	})
	kv.View(func(it kvi.KVIterator) error {
		it.Seek([]byte("zzz"))
		obs["Seek(zzz);Seek(a)"] = strings.Join(walkIt(it, []byte("a"), false), " ")
		return nil
	})
	kv.View(func(it kvi.KVIterator) error {
		it.SeekReverse([]byte("b"))
		obs["SeekReverse(b);Seek(aa)"] = strings.Join(walkIt(it, []byte("aa"), false), " ")
		return nil
	})
	kv.View(func(it kvi.KVIterator) error {
		it.Seek([]byte("a"))
		obs["Seek(a);SeekReverse(00)"] = strings.Join(walkIt(it, []byte("\x00"), true), " ")
		return nil
	})
	return obs
}

type c10Store struct {
	kv  kvi.KVInterface
	dir string
}

func c10Open(w *fw.Worker, driver string) (kvi.KVInterface, error) {
	dir := w.NewDir("c10-" + driver)
	path := dir
	if driver == "bolt" {
		path = dir + "/bolt.db"
	}
	return kvi.NewKVInterface(driver, path, nil)
}

// applyKV performs op on the store and the model and returns observations made
// inside transactions (store side, model side).
func applyKV(kv kvi.KVInterface, m kvModel, o kvOp) (got, want []string, err error) {
	switch o.Op {
	case "Set":
		err = kv.Set(unhx(o.K), unhx(o.V))
		m[string(unhx(o.K))] = string(unhx(o.V))
	case "Delete":
		err = kv.Delete(unhx(o.K))
		delete(m, string(unhx(o.K)))
	case "DeletePrefix":
		err = kv.DeletePrefix(unhx(o.K))
		for k := range m {
			if bytes.HasPrefix([]byte(k), unhx(o.K)) {
				delete(m, k)
			}
		}
	case "Update":
		err = kv.Update(func(tx kvi.KVTransaction) error {
			for _, s := range o.Subs {
				k := unhx(s.K)
				switch s.Op {
				case "Set":
					if e := tx.Set(k, unhx(s.V)); e != nil {
						got = append(got, "Set-error:"+e.Error())
					}
					m[string(k)] = string(unhx(s.V))
				case "Delete":
					if e := tx.Delete(k); e != nil {
						got = append(got, "Delete-error:"+e.Error())
					}
					delete(m, string(k))
				case "Get":
					got = append(got, "tx.Get("+s.K+")="+getStr(tx.Get(k)))
					if v, ok := m[string(k)]; ok {
						want = append(want, "tx.Get("+s.K+")=ok:"+hx(v))
					} else {
						want = append(want, "tx.Get("+s.K+")=absent")
					}
				case "HasKey":
					got = append(got, fmt.Sprintf("tx.HasKey(%s)=%v", s.K, tx.HasKey(k)))
					_, ok := m[string(k)]
					want = append(want, fmt.Sprintf("tx.HasKey(%s)=%v", s.K, ok))
				case "Walk":
					tx.View(func(it kvi.KVIterator) error {
						got = append(got, "tx.Walk("+s.K+")="+strings.Join(walkIt(it, k, false), " "))
						return nil
					})
					want = append(want, "tx.Walk("+s.K+")="+strings.Join(m.walk(string(k), false), " "))
				}
			}
			return nil
		})
	case "Bulk":
		err = kv.BulkWrite(func(bw kvi.KVBulkWrite) error {
			for _, s := range o.Subs {
				if e := bw.Set(unhx(s.K), unhx(s.V)); e != nil {
					got = append(got, "Set-error:"+e.Error())
				}
				m[string(unhx(s.K))] = string(unhx(s.V))
			}
			return nil
		})
	}
	return
}

// c10Volume: n keys under one prefix next to keys under neighbouring prefixes;
// walks must see all of them, DeletePrefix must remove exactly them.
func c10Volume(w *fw.Worker, cc c10Case) fw.Result {
	kv, err := c10Open(w, cc.Driver)
	if err != nil {
		return fw.InconclusiveR("open: " + err.Error())
	}
	defer kv.Close()
	others := []string{"o|z", "p", "p{", "q|a"} // sort before, just before, just after and after the prefix
	err = kv.BulkWrite(func(bw kvi.KVBulkWrite) error {
		for i := 0; i < cc.Volume; i++ {
			if err := bw.Set([]byte(fmt.Sprintf("p|%06d", i)), []byte{byte(i)}); err != nil {
				return err
			}
		}
		for _, k := range others {
			if err := bw.Set([]byte(k), []byte("x")); err != nil {
				return err
			}
		}
		return nil
	})
	if err != nil {
		return fw.ViolatedR(cc.Driver+":volume:write", fmt.Sprintf("%s: BulkWrite of %d keys failed: %v", cc.Driver, cc.Volume+len(others), err), cc)
	}
	walk := func() (n int, rest []string) {
		kv.View(func(it kvi.KVIterator) error {
			for it.Seek([]byte{}); it.Valid(); it.Next() {
				k := string(it.Key())
				if strings.HasPrefix(k, "p|") {
					n++
				} else {
					rest = append(rest, k)
				}
			}
			return nil
		})
		return
	}
	res := fw.HeldR(true, "")
	res.AddSet("drivers", cc.Driver)
	res.Count("volume_keys", int64(cc.Volume))
	if n, rest := walk(); n != cc.Volume || strings.Join(rest, ",") != strings.Join(others, ",") {
		return fw.ViolatedR(cc.Driver+":volume:walk", fmt.Sprintf("%s: a walk over %d+%d keys sees %d keys under the prefix and %v elsewhere", cc.Driver, cc.Volume, len(others), n, rest), cc)
	}
	if err := kv.DeletePrefix([]byte("p|")); err != nil {
		return fw.ViolatedR(cc.Driver+":volume:DeletePrefix", fmt.Sprintf("%s: DeletePrefix over %d keys failed: %v", cc.Driver, cc.Volume, err), cc)
	}
	if n, rest := walk(); n != 0 || strings.Join(rest, ",") != strings.Join(others, ",") {
		return fw.ViolatedR(cc.Driver+":volume:DeletePrefix", fmt.Sprintf("%s: after DeletePrefix over %d keys, %d keys under the prefix are left; keys elsewhere %v (want %v)", cc.Driver, cc.Volume, n, rest, others), cc)
	}
	return res
}

func c10Exec(w *fw.Worker, c fw.Case) fw.Result {
	var cc c10Case
	c.Decode(&cc)
	switch c.Kind {
	case "hist":
		return c10Hist(w, cc)
	case "prog":
		return c10Prog(w, cc)
	case "volume":
		return c10Volume(w, cc)
	}
	var kv kvi.KVInterface
	var err error
	if cc.Fresh || c.Witness != "" {
		kv, err = c10Open(w, cc.Driver)
		if err != nil {
			return fw.InconclusiveR("open: " + err.Error())
		}
		defer kv.Close()
	} else {
		st := w.State("c10kv-"+cc.Driver, func() interface{} {
			kv, err := c10Open(w, cc.Driver)
			if err != nil {
				panic(err)
			}
			return &c10Store{kv: kv}
		}).(*c10Store)
		kv = st.kv
		// start from an empty store: remove whatever the previous sequence left, key by key
		var left [][]byte
		kv.View(func(it kvi.KVIterator) error {
			for it.Seek([]byte{}); it.Valid() && len(left) < 1000; it.Next() {
				left = append(left, append([]byte{}, it.Key()...))
			}
			return nil
		})
		for _, k := range left {
			kv.Delete(k)
		}
		for _, k := range append(append([]string{}, c10Keys...), "nokey") {
			kv.Delete([]byte(k))
		}
		if d := diffKV(observeKV(kv), kvModel{}.observe()); len(d) > 0 {
			// could not clean the shared store: use a fresh one for this case
			st.kv.Close()
			w.DropState("c10kv-" + cc.Driver)
			kv, err = c10Open(w, cc.Driver)
			if err != nil {
				return fw.InconclusiveR("open: " + err.Error())
			}
			defer kv.Close()
		}
	}
	m := kvModel{}
	res := fw.HeldR(false, "")
	res.AddSet("drivers", cc.Driver)
	for i, o := range cc.Ops {
		got, want, err := applyKV(kv, m, o)
		res.Count("ops", 1)
		detail := map[string]interface{}{"driver": cc.Driver, "ops": cc.Ops, "failing_step": i, "failing_op": o}
		if err != nil {
			return fw.ViolatedR(fmt.Sprintf("%s:%s:error", cc.Driver, o.Op), fmt.Sprintf("%s on %s returned error %v", o.Op, cc.Driver, err), detail)
		}
		if strings.Join(got, ";") != strings.Join(want, ";") {
			detail["in_transaction_got"], detail["in_transaction_model"] = got, want
			return fw.ViolatedR(fmt.Sprintf("%s:%s:in-transaction", cc.Driver, o.Op), fmt.Sprintf("%s: reads inside the transaction differ from the ordered-map model: got %v, model %v", cc.Driver, got, want), detail)
		}
		g2 := observeKV(kv)
		res.Count("observations", int64(len(g2)))
		if d := diffKV(g2, m.observe()); len(d) > 0 {
			kinds := map[string]bool{}
			for _, l := range d {
				kinds[strings.SplitN(l, "(", 2)[0]] = true
			}
			var ks []string
			for k := range kinds {
				ks = append(ks, k)
			}
			sort.Strings(ks)
			if len(d) > 8 {
				d = d[:8]
			}
			detail["differences"] = d
			return fw.ViolatedR(fmt.Sprintf("%s:%s:%s", cc.Driver, o.Op, strings.Join(ks, "+")), fmt.Sprintf("%s after step %d (%s): %s", cc.Driver, i, o.Op, d[0]), detail)
		}
		if len(m) > 0 {
			res.Nontrivial = true
		}
	}
	return res
}

func diffKV(got, want map[string]string) []string {
	var d []string
	for k, w := range want {
		if g := got[k]; g != w {
			d = append(d, fmt.Sprintf("%s: driver [%s], ordered map [%s]", k, g, w))
		}
	}
	sort.Strings(d)
	return d
}

func openGraphDB(w *fw.Worker, driver string) (gdbi.GraphDB, error) {
	dir := w.NewDir("c10g-" + driver)
	path := dir
	if driver == "bolt" {
		path = dir + "/bolt.db"
	}
	return kvgraph.NewKVGraphDB(driver, path)
}

type c10GraphStore struct {
	db gdbi.GraphDB
	n  int
	c1 *c01Env
}

func c10GraphState(w *fw.Worker, driver string) *c10GraphStore {
	return w.State("c10g-"+driver, func() interface{} {
		db, err := openGraphDB(w, driver)
		if err != nil {
			panic(err)
		}
		return &c10GraphStore{db: db, c1: &c01Env{db: db, loaded: map[int]gdbi.GraphInterface{}, models: map[int]*model.Graph{}}}
	}).(*c10GraphStore)
}

func c10Hist(w *fw.Worker, cc c10Case) fw.Result {
	st := c10GraphState(w, cc.Driver)
	st.n++
	r := runHistory(w, st.db, nil, *cc.Hist, fmt.Sprintf("k%dx", st.n), "C10")
	if r.Status == fw.Violated {
		r.Key = cc.Driver + ":history:" + r.Key
		r.Msg = cc.Driver + ": " + r.Msg
	}
	r.AddSet("drivers", cc.Driver)
	return r
}

func c10Prog(w *fw.Worker, cc c10Case) fw.Result {
	st := c10GraphState(w, cc.Driver)
	r := c01Run(w, st.c1, *cc.Prog, st.db)
	if r.Status == fw.Violated {
		r.Key = cc.Driver + ":traversal:" + r.Key
		r.Msg = cc.Driver + ": " + r.Msg
	}
	r.AddSet("drivers", cc.Driver)
	return r
}

var _ = gq.Trunc

func init() {
	fw.Register(&fw.Property{
		ID:   "C10",
		Rule: "per driver (badger, bolt, level, pebble, opened through kvi.NewKVInterface): operation sequences over Set/Delete/DeletePrefix/Update (Set, Delete, Get, HasKey and an iterator walk inside the transaction)/BulkWrite on keys over {a,b,0x00,0xff} with shared prefixes and empty values - exhaustive to depth 2 (quick) / 3 (thorough) over 27 operations plus 300 / 20000 random sequences of length 10-40; after EVERY operation the whole observation set (Get, HasKey, it.Get on 15 probe keys, forward and reverse seek+walk from 16 probe keys, several seeks inside one View) is compared with a sorted-map model. Volume: 9999, 10001, 20005 (thorough also 9998, 10000) keys under one prefix between keys of neighbouring prefixes - a walk sees all of them and DeletePrefix removes exactly them (the adapters delete in blocks of 10000). Cross-driver half: 100 / 3000 C03 histories and 200 / 5000 C01 programs replayed on kvgraph over each driver against the same abstract-graph / traversal models. Non-trivial = the model map is non-empty (or the replayed case is).",
		Assumptions: []string{
			"SeekReverse(k) positions at the largest key <= k and Next() then descends (what the Badger adapter does and kvindex relies on)",
			"closures passed to Update/BulkWrite return nil (rollback on error differs by design and is not part of the property)",
			"the empty key is never written (Badger and Bolt reject it); Key()/Value() are read only while Valid()",
			"a worker reuses one store per driver and deletes the previous sequence's keys one by one; 5% of random sequences and every replay use a fresh store",
		},
		BatchSize:   150,
		CaseTimeout: 25 * time.Second,
		Gen:         c10Gen,
		Exec:        c10Exec,
	})
}
