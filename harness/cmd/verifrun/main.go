// verifrun: one binary, driver (`run`) and worker (`worker`) for all checks.
package main

import (
	"fmt"
	"os"

	"verifharness/fw"
	"verifharness/gq"
)

func main() {
	if len(os.Args) < 2 {
		fmt.Fprintln(os.Stderr, "usage: verifrun run|worker ...")
		os.Exit(2)
	}
	switch os.Args[1] {
	case "run":
		os.Exit(fw.DriverMain(os.Args[2:]))
	case "c04child":
		gq.Silence()
		C04Child(os.Args[2:])
	case "worker":
		gq.Silence()
		fw.WorkerMain(os.Args[2:])
	default:
		fmt.Fprintln(os.Stderr, "unknown subcommand", os.Args[1])
		os.Exit(2)
	}
}
