package main

import (
	"context"
	"encoding/json"
	"fmt"
	"math/rand"
	"strings"

	"github.com/bmeg/grip/engine/core"
	"github.com/bmeg/grip/gdbi"
	"github.com/bmeg/grip/gripql"
	"google.golang.org/protobuf/types/known/structpb"

	"verifharness/deco"
	"verifharness/fw"
	"verifharness/gq"
	"verifharness/model"
)

// C02 – query planning (index rewrite, load elision) never changes answers.

type c02Case struct {
	// Variants are spellings that must all return the same rows; Variants[0] is
	// also executed literally.
	Variants [][]json.RawMessage `json:"variants"`
	Graphs   []int               `json:"graphs"`
	Names    string              `json:"names"`
}

func mkStmt(s interface{}) *gripql.GraphStatement {
	switch x := s.(type) {
	case *gripql.GraphStatement:
		return x
	case *gripql.Query:
		return x.Statements[len(x.Statements)-1]
	}
	panic("bad stmt")
}

func renderStmt(t interface{}) *gripql.GraphStatement {
	v, err := structpb.NewValue(t)
	if err != nil {
		panic(err)
	}
	return &gripql.GraphStatement{Statement: &gripql.GraphStatement_Render{Render: v}}
}

type seqDef struct {
	Name  string
	Stmts []*gripql.GraphStatement
}

func sq(name string, q *gripql.Query) seqDef { return seqDef{name, q.Statements} }

func c02Filters() []seqDef {
	q := gripql.NewQuery()
	return []seqDef{
		sq("hasLabel(P)", q.HasLabel("P")),
		sq("hasLabel(P,Q)", q.HasLabel("P", "Q")),
		sq("hasLabel(Q,P,Q)", q.HasLabel("Q", "P", "Q")),
		sq("hasLabel(nolabel)", q.HasLabel("nolabel")),
		sq("hasId(a)", q.HasID("a")),
		sq("hasId(b,a)", q.HasID("b", "a")),
		sq("hasId(a,a,zz)", q.HasID("a", "a", "zz")),
		sq("has(eq(_label,P))", q.Has(cond("EQ", "_label", "P"))),
		sq("has(within(_label,[P,Q,P]))", q.Has(cond("WITHIN", "_label", l("P", "Q", "P")))),
		sq("has(within(_label,[]))", q.Has(cond("WITHIN", "_label", l()))),
		sq("has(eq(_gid,a))", q.Has(cond("EQ", "_gid", "a"))),
		sq("has(within(_gid,[a,b,a]))", q.Has(cond("WITHIN", "_gid", l("a", "b", "a")))),
		sq("has(neq(_gid,a))", q.Has(cond("NEQ", "_gid", "a"))),
		sq("has(neq(_label,P))", q.Has(cond("NEQ", "_label", "P"))),
		sq("has(and(eq(_label,P),eq(_gid,a)))", q.Has(andE(cond("EQ", "_label", "P"), cond("EQ", "_gid", "a")))),
		sq("has(and(eq(_label,P)))", q.Has(andE(cond("EQ", "_label", "P")))),
		sq("has(and())", q.Has(andE())),
		sq("has(or(eq(_label,P),eq(_gid,b)))", q.Has(orE(cond("EQ", "_label", "P"), cond("EQ", "_gid", "b")))),
		sq("has(eq(p,1))", q.Has(cond("EQ", "p", 1.0))),
		sq("has(eq(_label,5))", q.Has(cond("EQ", "_label", 5.0))),
	}
}

func c02Suffixes() []seqDef {
	q := gripql.NewQuery()
	with := func(qq *gripql.Query, extra ...*gripql.GraphStatement) []*gripql.GraphStatement {
		return append(append([]*gripql.GraphStatement{}, qq.Statements...), extra...)
	}
	return []seqDef{
		{"", nil},
		sq("out()", q.Out()),
		sq("outE()", q.OutE()),
		sq("both()", q.Both()),
		sq("count()", q.Count()),
		{"render(p)", []*gripql.GraphStatement{renderStmt("p")}},
		sq("hasKey(p).out()", q.HasKey("p").Out()),
		sq("out().hasKey(p,s)", q.Out().HasKey("p", "s")),
		sq("fields(p)", q.Fields("p")),
		sq("out().fields(-p).in()", q.Out().Fields("-p").In()),
		{"unwind(l)", []*gripql.GraphStatement{{Statement: &gripql.GraphStatement_Unwind{Unwind: "l"}}}},
		{"out().unwind(l).out()", with(q.Out(), &gripql.GraphStatement{Statement: &gripql.GraphStatement_Unwind{Unwind: "l"}}, mkStmt(q.Out()))},
		{"path()", []*gripql.GraphStatement{{Statement: &gripql.GraphStatement_Path{Path: &structpb.ListValue{}}}}},
		{"as(a).out().render($a.p)", with(q.As("a").Out(), renderStmt(M{"ap": "$a.p", "g": "_gid"}))},
		sq("as(a).out().has(eq($a.p,1))", q.As("a").Out().Has(cond("EQ", "$a.p", 1.0))),
		sq("as(a).out().has(eq($a.p,1)).count()", q.As("a").Out().Has(cond("EQ", "$a.p", 1.0)).Count()),
		sq("as(a).outE().as(b).out().select(a,b)", q.As("a").OutE().As("b").Out().Select("a", "b")),
		sq("as(a).out().select(a)", q.As("a").Out().Select("a")),
		{"as(a).out().select(a).render(p)", with(q.As("a").Out().Select("a"), renderStmt("p"))},
		sq("as(a).out().select(a).hasKey(p)", q.As("a").Out().Select("a").HasKey("p")),
		{"outE().as(e).out().render($e.p)", with(q.OutE().As("e").Out(), renderStmt(M{"w": "$e.p", "l": "$e._label"}))},
		sq("outE().as(e).out().has(gt($e.p,0))", q.OutE().As("e").Out().Has(cond("GT", "$e.p", 0.0))),
		sq("outE().hasKey(p).out()", q.OutE().HasKey("p").Out()),
		sq("outE().as(e).in().select(e)", q.OutE().As("e").In().Select("e")),
		sq("in().out().count()", q.In().Out().Count()),
		sq("out().hasLabel(Q).out()", q.Out().HasLabel("Q").Out()),
		sq("as(a).out().as(b).select(a,b)", q.As("a").Out().As("b").Select("a", "b")),
		sq("out().as(b).in().hasKey($b.p)", q.Out().As("b").In().HasKey("$b.p")),
		// the same references spelled through _data: the planner must still load what they read
		sq("outE().as(e).out().has(gt($e._data.p,0))", q.OutE().As("e").Out().Has(cond("GT", "$e._data.p", 0.0))),
		{"outE().as(e).out().render($e._data.p,$e._data)", with(q.OutE().As("e").Out(), renderStmt(M{"w": "$e._data.p", "d": "$e._data", "g": "_gid"}))},
		sq("outE().hasKey(_data.p).out()", q.OutE().HasKey("_data.p").Out()),
		sq("outE().has(eq(_data.p,1)).out()", q.OutE().Has(cond("EQ", "_data.p", 1.0)).Out()),
		sq("inE().has(eq($._data.p,2)).in()", q.InE().Has(cond("EQ", "$._data.p", 2.0)).In()),
		sq("as(a).out().has(eq($a._data.p,1)).count()", q.As("a").Out().Has(cond("EQ", "$a._data.p", 1.0)).Count()),
		{"bothE().as(e).both().render($e._data)", with(q.BothE().As("e").Both(), renderStmt("$e._data"))},
		// aggregations that read a field of an earlier (edge) step through a mark
		{"outE().as(e).out().aggregate(type($e.p))", q.OutE().As("e").Out().Aggregate([]*gripql.Aggregate{{Name: "y", Aggregation: &gripql.Aggregate_Type{Type: &gripql.TypeAggregation{Field: "$e.p"}}}}).Statements},
		{"outE().as(e).out().aggregate(term($e.p),count)", q.OutE().As("e").Out().Aggregate([]*gripql.Aggregate{{Name: "t", Aggregation: &gripql.Aggregate_Term{Term: &gripql.TermAggregation{Field: "$e.p"}}}, {Name: "c", Aggregation: &gripql.Aggregate_Count{Count: &gripql.CountAggregation{}}}}).Statements},
		{"inE().as(e).in().aggregate(field($e._data),histogram($e.p))", q.InE().As("e").In().Aggregate([]*gripql.Aggregate{{Name: "f", Aggregation: &gripql.Aggregate_Field{Field: &gripql.FieldAggregation{Field: "$e._data"}}}, {Name: "h", Aggregation: &gripql.Aggregate_Histogram{Histogram: &gripql.HistogramAggregation{Field: "$e.p", Interval: 1}}}}).Statements},
		{"as(a).out().aggregate(type($a.p),term(p))", q.As("a").Out().Aggregate([]*gripql.Aggregate{{Name: "y", Aggregation: &gripql.Aggregate_Type{Type: &gripql.TypeAggregation{Field: "$a.p"}}}, {Name: "t", Aggregation: &gripql.Aggregate_Term{Term: &gripql.TermAggregation{Field: "p"}}}}).Statements},
	}
}

func flat(seqs ...[]*gripql.GraphStatement) []*gripql.GraphStatement {
	var out []*gripql.GraphStatement
	for _, s := range seqs {
		out = append(out, s...)
	}
	return out
}

// c02Families are spelling classes: every member must return identical rows.
func c02Families() [][]seqDef {
	q := gripql.NewQuery()
	return [][]seqDef{
		{sq("hasLabel(P)", q.HasLabel("P")), sq("has(eq(_label,P))", q.Has(cond("EQ", "_label", "P"))),
			sq("has(within(_label,[P]))", q.Has(cond("WITHIN", "_label", l("P")))), sq("has(and(eq(_label,P)))", q.Has(andE(cond("EQ", "_label", "P")))),
			sq("hasLabel(P,P)", q.HasLabel("P", "P")), sq("has(within(_label,[P,P]))", q.Has(cond("WITHIN", "_label", l("P", "P")))),
			sq("has(eq($._label,P))", q.Has(cond("EQ", "$._label", "P")))},
		{sq("hasLabel(P,Q)", q.HasLabel("P", "Q")), sq("hasLabel(Q,P)", q.HasLabel("Q", "P")), sq("hasLabel(P,Q,P)", q.HasLabel("P", "Q", "P")),
			sq("has(within(_label,[P,Q]))", q.Has(cond("WITHIN", "_label", l("P", "Q")))), sq("has(within(_label,[Q,P,Q]))", q.Has(cond("WITHIN", "_label", l("Q", "P", "Q")))),
			sq("has(or(eq(_label,P),eq(_label,Q)))", q.Has(orE(cond("EQ", "_label", "P"), cond("EQ", "_label", "Q"))))},
		{sq("hasId(a)", q.HasID("a")), sq("has(eq(_gid,a))", q.Has(cond("EQ", "_gid", "a"))), sq("has(within(_gid,[a]))", q.Has(cond("WITHIN", "_gid", l("a")))),
			sq("has(and(eq(_gid,a)))", q.Has(andE(cond("EQ", "_gid", "a")))), sq("hasId(a,a)", q.HasID("a", "a")), sq("has(within(_gid,[a,a]))", q.Has(cond("WITHIN", "_gid", l("a", "a"))))},
		{sq("hasId(a,b)", q.HasID("a", "b")), sq("hasId(b,a)", q.HasID("b", "a")), sq("hasId(b,a,zz,b)", q.HasID("b", "a", "zz", "b")),
			sq("has(within(_gid,[b,a]))", q.Has(cond("WITHIN", "_gid", l("b", "a")))), sq("has(within(_gid,[a,zz,b,a]))", q.Has(cond("WITHIN", "_gid", l("a", "zz", "b", "a"))))},
		{sq("has(eq(p,1))", q.Has(cond("EQ", "p", 1.0))), sq("has(eq($.p,1))", q.Has(cond("EQ", "$.p", 1.0))), sq("has(eq(_data.p,1))", q.Has(cond("EQ", "_data.p", 1.0))),
			sq("has(eq($._data.p,1))", q.Has(cond("EQ", "$._data.p", 1.0)))},
		{sq("outE().hasKey(p).out()", q.OutE().HasKey("p").Out()), sq("outE().hasKey(_data.p).out()", q.OutE().HasKey("_data.p").Out()), sq("outE().hasKey($.p).out()", q.OutE().HasKey("$.p").Out())},
		{sq("hasLabel(P).hasId(a)", q.HasLabel("P").HasID("a")), sq("hasId(a).hasLabel(P)", q.HasID("a").HasLabel("P")),
			sq("has(and(eq(_label,P),eq(_gid,a)))", q.Has(andE(cond("EQ", "_label", "P"), cond("EQ", "_gid", "a")))),
			sq("has(and(eq(_gid,a),eq(_label,P)))", q.Has(andE(cond("EQ", "_gid", "a"), cond("EQ", "_label", "P"))))},
	}
}

func c02Gen(g *fw.GenCtx) []fw.Case {
	var cases []fw.Case
	filters := c02Filters()
	suffixes := c02Suffixes()
	starts := []seqDef{sq("V()", gripql.V()), sq("E()", gripql.E()), sq("V(a,b)", gripql.V("a", "b"))}
	rng := rand.New(rand.NewSource(g.Seed*131 + 7))
	nRand := g.Pick(20, 500)
	pick := func(k int) []int {
		gs := []int{rng.Intn(c01LibN)}
		for len(gs) < k {
			gs = append(gs, c01LibN+rng.Intn(nRand))
		}
		return gs
	}
	add := func(name string, variants ...[]*gripql.GraphStatement) {
		var vs [][]json.RawMessage
		for _, v := range variants {
			if _, _, err := model.TypeCheck(v); err != nil {
				return
			}
			vs = append(vs, gq.StmtJSON(v))
		}
		cases = append(cases, fw.MkCase("plan", c02Case{Variants: vs, Graphs: pick(2), Names: name}))
	}
	// leading filter runs x suffixes
	var runs [][]int
	var rec func(p []int)
	rec = func(p []int) {
		if len(p) > 0 {
			runs = append(runs, append([]int{}, p...))
		}
		if len(p) == 3 {
			return
		}
		for i := range filters {
			rec(append(p, i))
		}
	}
	rec(nil)
	for _, start := range starts {
		for _, run := range runs {
			if start.Name != "V()" && len(run) > g.Pick(1, 2) {
				continue
			}
			var fs []*gripql.GraphStatement
			var names []string
			h := 0
			for _, i := range run {
				fs = append(fs, filters[i].Stmts...)
				names = append(names, filters[i].Name)
				h = h*31 + i
			}
			for si, suf := range suffixes {
				switch {
				case len(run) <= 1:
				case len(run) == 2 && g.Quick() && (h+si)%3 != 0:
					continue // quick: a third of the (length-2 run, suffix) products
				case len(run) == 3 && g.Quick() && (si > 0 || h%4 != 0):
					continue // quick: a quarter of the length-3 runs, bare
				case len(run) == 3 && !g.Quick() && si > 0 && (h+si)%5 != 0:
					continue // thorough: all length-3 runs bare, a fifth of their suffix products
				}
				add(start.Name+"."+strings.Join(names, ".")+"."+suf.Name, flat(start.Stmts, fs, suf.Stmts))
			}
		}
	}
	// suffixes directly after a start (elision without index rewrite)
	for _, start := range starts {
		for _, s1 := range suffixes {
			for _, s2 := range suffixes {
				add(start.Name+"."+s1.Name+"."+s2.Name, flat(start.Stmts, s1.Stmts, s2.Stmts))
			}
		}
	}
	// spelling families, bare and with suffixes
	for _, fam := range c02Families() {
		for _, suf := range suffixes {
			var variants [][]*gripql.GraphStatement
			var names []string
			for _, m := range fam {
				variants = append(variants, flat(gripql.V().Statements, m.Stmts, suf.Stmts))
				names = append(names, m.Name)
			}
			add("V().{"+strings.Join(names, " | ")+"}."+suf.Name, variants...)
		}
	}
	// random programs from the C01 alphabet (planning must not change them either)
	alpha := c01Alphabet()
	n := g.Pick(2000, 100000)
	for i := 0; i < n; i++ {
		var stmts []*gripql.GraphStatement
		var names []string
		for _, a := range alpha {
			if a.Start && rng.Intn(3) == 0 {
				stmts = []*gripql.GraphStatement{a.Stmt}
				names = []string{a.Name}
			}
		}
		if stmts == nil {
			stmts = []*gripql.GraphStatement{alpha[0].Stmt}
			names = []string{alpha[0].Name}
		}
		ln := 3 + rng.Intn(6)
		for tries := 0; len(stmts) < ln && tries < 100; tries++ {
			var cand []*gripql.GraphStatement
			var nm string
			switch rng.Intn(3) {
			case 0:
				f := filters[rng.Intn(len(filters))]
				cand, nm = f.Stmts, f.Name
			case 1:
				s := suffixes[1+rng.Intn(len(suffixes)-1)]
				cand, nm = s.Stmts, s.Name
			default:
				a := alpha[rng.Intn(len(alpha))]
				if a.Start || strings.HasPrefix(a.Name, "distinct") {
					continue
				}
				cand, nm = []*gripql.GraphStatement{a.Stmt}, a.Name
			}
			next := flat(stmts, cand)
			if _, _, err := model.TypeCheck(next); err != nil {
				continue
			}
			if _, err := model.Eval(model.NewGraph(), next); err != nil {
				continue
			}
			if c01Unspecified(next) {
				continue
			}
			stmts = next
			names = append(names, nm)
		}
		add(strings.Join(names, "."), stmts)
	}
	return cases
}

// splitTail separates the order-sensitive tail (limit/skip/range/distinct/count).
func splitTail(stmts []*gripql.GraphStatement) (head, tail []*gripql.GraphStatement) {
	for i, s := range stmts {
		switch s.GetStatement().(type) {
		case *gripql.GraphStatement_Limit, *gripql.GraphStatement_Skip, *gripql.GraphStatement_Range, *gripql.GraphStatement_Distinct:
			return stmts[:i], stmts[i:]
		}
	}
	return stmts, nil
}

func endsWithCount(stmts []*gripql.GraphStatement) bool {
	if len(stmts) == 0 {
		return false
	}
	_, ok := stmts[len(stmts)-1].GetStatement().(*gripql.GraphStatement_Count)
	return ok
}

func c02Exec(w *fw.Worker, c fw.Case) fw.Result {
	var cc c02Case
	c.Decode(&cc)
	env := c01Setup(w)
	res := fw.HeldR(false, "")
	ctx := context.Background()
	for _, gidx := range cc.Graphs {
		gi, _ := env.graph(w, gidx)
		gname := c01GraphByIndex(w.Seed, gidx).Name
		lit := core.NewCompiler(&deco.GraphLoad{GraphInterface: gi, Mode: deco.ForceLoad})
		prodPlain := gi.Compiler()
		prodHint := core.NewCompiler(&deco.GraphLoad{GraphInterface: gi, Mode: deco.HonourHint}, core.IndexStartOptimize)
		var reference []string
		for vi, raw := range cc.Variants {
			full := gq.StmtsFromJSON(raw)
			head, tail := splitTail(full)
			detail := func(extra map[string]interface{}) map[string]interface{} {
				extra["program"] = gq.QueryString(full)
				extra["names"] = cc.Names
				extra["graph"] = c01GraphByIndex(w.Seed, gidx)
				return extra
			}
			if vi == 0 {
				r := gq.Run(ctx, lit, head, w.NewDir("work"))
				if r.CompileErr != "" {
					return fw.InconclusiveR("literal compile error: " + r.CompileErr)
				}
				reference = gq.CanonRows(r.Rows)
				res.Count("literal_executions", 1)
			}
			for _, be := range []struct {
				name string
				comp gdbi.Compiler
			}{{"kvgraph", prodPlain}, {"hint-honouring", prodHint}} {
				comp := be.comp
				r := gq.Run(ctx, comp, head, w.NewDir("work"))
				res.Count("production_executions", 1)
				if r.CompileErr != "" {
					return fw.ViolatedR("plan-compile-error:"+stepKey(head), fmt.Sprintf("%s: production compiler (%s) rejects a traversal the literal compiler accepts: %s", cc.Names, be.name, r.CompileErr), detail(map[string]interface{}{}))
				}
				got := gq.CanonRows(r.Rows)
				if !gq.SameMultiset(got, reference) {
					kind := "plan"
					if vi > 0 {
						kind = "spelling"
					}
					return fw.ViolatedR(fmt.Sprintf("%s:%s:%s", kind, be.name, stepKey(head)),
						fmt.Sprintf("%s on graph %s: production plan over the %s backend returns %s, the literal fully-loaded plan returns %s", gq.QueryString(head), gname, be.name,
							gq.Trunc(strings.Join(got, " "), 500), gq.Trunc(strings.Join(reference, " "), 500)),
						detail(map[string]interface{}{"backend": be.name, "production_rows": got, "literal_rows": reference, "variant": vi}))
				}
				res.Count("rows_compared", int64(len(got)))
				// count() metamorphic relation and tail arithmetic
				if !endsWithCount(head) {
					withCount := append(append([]*gripql.GraphStatement{}, head...), mkStmt(gripql.NewQuery().Count()))
					rc := gq.Run(ctx, comp, withCount, w.NewDir("work"))
					res.Count("count_executions", 1)
					if rc.CompileErr != "" || len(rc.Rows) != 1 || int(rc.Rows[0].GetCount()) != len(got) {
						return fw.ViolatedR(fmt.Sprintf("count:%s:%s", be.name, stepKey(head)),
							fmt.Sprintf("%s on graph %s (%s backend): count() says %v but the uncounted traversal returns %d rows", gq.QueryString(head), gname, be.name, gq.CanonRows(rc.Rows), len(got)),
							detail(map[string]interface{}{"backend": be.name, "count_rows": gq.CanonRows(rc.Rows), "rows": got}))
					}
				}
				if len(tail) > 0 {
					rt := gq.Run(ctx, comp, full, w.NewDir("work"))
					rl := gq.Run(ctx, lit, full, w.NewDir("work"))
					res.Count("tail_executions", 2)
					if rt.CompileErr != rl.CompileErr || len(rt.Rows) != len(rl.Rows) {
						return fw.ViolatedR(fmt.Sprintf("tail:%s:%s", be.name, stepKey(full)),
							fmt.Sprintf("%s on graph %s (%s backend): %d rows, literal plan %d rows", gq.QueryString(full), gname, be.name, len(rt.Rows), len(rl.Rows)), detail(map[string]interface{}{}))
					}
				}
			}
		}
		if len(reference) > 0 {
			res.Nontrivial = true
		}
	}
	res.AddSet("step_kinds", strings.Split(stepKey(gq.StmtsFromJSON(cc.Variants[0])), ">")...)
	return res
}

func init() {
	fw.Register(&fw.Property{
		ID:   "C02",
		Rule: "differential: each program is executed (a) literally - core compiler without optimizers over a force-load decorator, (b) through the production composition core.NewCompiler(db, IndexStartOptimize) over plain kvgraph and (c) over a hint-honouring decorator that returns Data=nil/Loaded=false whenever load=false is requested; canonical multisets must be equal, count() must equal the number of rows, members of a spelling family must agree. Programs: V()/E()/V(ids) x leading filter runs of length 1, a third of length 2 and a quarter of length 3 (quick) / all of length <= 3 (thorough) over 20 filters x 28 data-consuming suffixes, all suffix pairs, 5 spelling families x suffixes, 3000 / 100000 random programs; 2 graphs each from the C01 library and random graphs. Non-trivial = the literal result is non-empty; distinct = distinct case payloads.",
		Assumptions: []string{
			"the hint-honouring decorator models what the Mongo/SQL/Elastic drivers do with load=false (harness code); compiler, optimizer, inspect analysis, processors and Convert are the real ones",
			"order-sensitive tails are compared by row count only; the head of the program is compared exactly",
		},
		BatchSize: 300,
		Gen:       c02Gen,
		Exec:      c02Exec,
		Sample: func(c fw.Case, r fw.Result) interface{} {
			var cc c02Case
			c.Decode(&cc)
			return map[string]interface{}{"program": cc.Names, "variants": len(cc.Variants), "graphs": cc.Graphs, "verdict": r.Status, "rows_compared": r.Counters["rows_compared"]}
		},
	})
}
