package main

import (
	"fmt"
	"math/rand"
	"os"
	"os/exec"
	"path/filepath"
	"strings"
	"time"

	"github.com/bmeg/grip/gdbi"
	"github.com/bmeg/grip/kvgraph"
	"github.com/bmeg/grip/kvi"
	_ "github.com/bmeg/grip/kvi/badgerdb"

	"verifharness/deco"
	"verifharness/fw"
	"verifharness/gq"
	"verifharness/model"
)

// C04 – reopening a database (cleanly or after a crash) preserves a consistent graph.

type c04Crash struct {
	Base int        `json:"base"`
	Pre  []model.Op `json:"pre,omitempty"`
	Call model.Op   `json:"call"`
	Kill bool       `json:"kill,omitempty"` // really SIGKILL a child between writes (thorough)
}

var c04RichPre = []model.Op{
	{Op: "AddVertex", Graph: "g1", Elems: []*model.Elem{mv("c", "Q", M{"x": 2.0})}},
	{Op: "AddEdge", Graph: "g1", Elems: []*model.Elem{me("e3", "r", "a", "c", nil)}},
	{Op: "AddEdge", Graph: "g1", Elems: []*model.Elem{me("e4", "s", "c", "c", nil)}},
	{Op: "AddVertex", Graph: "g1b", Elems: []*model.Elem{mv("a", "P", nil)}},
}

// c04HubPre: a vertex with 300 incident edges (a mutation of it touches more than 1000 keys)
func c04HubPre() []model.Op {
	var es []*model.Elem
	for i := 0; i < 150; i++ {
		es = append(es, me(fmt.Sprintf("ho%d", i), "r", "hub", "a", nil), me(fmt.Sprintf("hi%d", i), "s", "b", "hub", M{"w": float64(i)}))
	}
	return []model.Op{
		{Op: "AddVertex", Graph: "g1", Elems: []*model.Elem{mv("hub", "P", M{"x": 1.0})}},
		{Op: "AddEdge", Graph: "g1", Elems: es},
	}
}

func c04Gen(g *fw.GenCtx) []fw.Case {
	var cases []fw.Case
	// (a) clean restarts: random C03 histories, a restart inserted at every position
	gg := &fw.GenCtx{Tier: "quick", Seed: g.Seed + 1000, Avoid: g.Avoid}
	gg.Avoid["c03-same-id-twice-in-one-batch"] = true
	alpha := c03Alphabet(gg.Avoid)
	rng := rand.New(rand.NewSource(g.Seed*53 + 9))
	n := g.Pick(12, 400)
	for i := 0; i < n; i++ {
		ln := 4 + rng.Intn(9)
		var ops []model.Op
		for j := 0; j < ln; j++ {
			ops = append(ops, alpha[rng.Intn(len(alpha))])
		}
		base := rng.Intn(len(c03Bases))
		for p := 0; p <= ln; p++ {
			cases = append(cases, fw.MkCase("restart", c03Case{Base: base, Ops: ops, Restart: []int{p}}))
		}
		// and two restarts
		cases = append(cases, fw.MkCase("restart", c03Case{Base: base, Ops: ops, Restart: []int{rng.Intn(ln + 1), ln}}))
	}
	// (a') the first two calls of a new session: every ordered pair of calls right after a reopen
	// (state that is rebuilt lazily after a restart depends on which call comes first)
	for b := range c03Bases {
		if g.Quick() && b != len(c03Bases)-1 {
			continue
		}
		for i1, op1 := range alpha {
			if g.Quick() && !(op1.Op == "AddGraph" || op1.Op == "DeleteGraph" || i1%7 == 5) {
				continue // quick: the first call is a graph-level call (they register and drop index fields) or one call in seven
			}
			for _, op2 := range alpha {
				if g.Quick() && !(op2.Op == "AddVertex" || op2.Op == "AddEdge" || op2.Op == "BulkAdd") {
					continue // quick: the second call is a write of elements
				}
				cases = append(cases, fw.MkCase("restart", c03Case{Base: b, Ops: []model.Op{op1, op2}, Restart: []int{0}}))
			}
		}
	}
	// (b) crash points: every call of the alphabet in every pre-state, every top-level write
	for b := range c03Bases {
		for _, call := range alpha {
			cases = append(cases, fw.MkCase("crash", c04Crash{Base: b, Call: call}))
			if b == 2 {
				cases = append(cases, fw.MkCase("crash", c04Crash{Base: b, Pre: c04RichPre, Call: call}))
			}
		}
	}
	// calls on a vertex with 300 incident edges
	for _, call := range []model.Op{
		{Op: "DelVertex", Graph: "g1", ID: "hub"},
		{Op: "AddVertex", Graph: "g1", Elems: []*model.Elem{mv("hub", "Q", nil)}},
		{Op: "DeleteGraph", Graph: "g1"},
		{Op: "DelVertex", Graph: "g1", ID: "a"},
	} {
		cases = append(cases, fw.MkCase("crash", c04Crash{Base: 2, Pre: c04HubPre(), Call: call}))
	}
	if !g.Quick() {
		for i, call := range alpha {
			if i%3 == 0 {
				cases = append(cases, fw.MkCase("crash", c04Crash{Base: 2, Pre: c04RichPre, Call: call, Kill: true}))
			}
		}
	}
	return cases
}

func c04Restart(w *fw.Worker, h c03Case) fw.Result {
	dir := w.NewDir("restart")
	db, err := gq.OpenBadger(dir)
	if err != nil {
		return fw.InconclusiveR("open: " + err.Error())
	}
	cur := db
	reopen := func() gdbi.GraphDB {
		cur.Close()
		ndb, err := gq.OpenBadger(dir)
		if err != nil {
			panic("reopen: " + err.Error())
		}
		cur = ndb
		return ndb
	}
	defer func() { cur.Close() }()
	r := runHistory(w, db, reopen, h, "", "C04")
	if r.Status == fw.Violated {
		r.Key = "restart:" + r.Key
		r.Msg = fmt.Sprintf("history with a clean close+reopen before step(s) %v: %s", h.Restart, r.Msg)
	}
	return r
}

// targets of an in-flight call: what may legitimately be in its before or
// after form when the process died inside it.
func callTargets(o model.Op, pre *model.World) (wholeGraph bool, vids, eids map[string]bool) {
	vids, eids = map[string]bool{}, map[string]bool{}
	switch o.Op {
	case "AddGraph", "DeleteGraph":
		return true, vids, eids
	case "DelVertex":
		vids[o.ID] = true
		if g, ok := pre.Graphs[o.Graph]; ok {
			for id, e := range g.E {
				if e.From == o.ID || e.To == o.ID {
					eids[id] = true
				}
			}
		}
	case "DelEdge":
		eids[o.ID] = true
	default:
		for _, e := range o.Elems {
			if e.Edge {
				eids[e.ID] = true
			} else {
				vids[e.ID] = true
			}
		}
	}
	return false, vids, eids
}

func buildWorld(base int, pre []model.Op) *model.World {
	w := model.NewWorld()
	for _, o := range c03Bases[base] {
		w.Apply(o)
	}
	for _, o := range pre {
		w.Apply(o)
	}
	return w
}

func cloneWorld(base int, pre []model.Op, call *model.Op) *model.World {
	w := buildWorld(base, pre)
	if call != nil {
		w.Apply(*call)
	}
	return w
}

// checkAfterCrash verifies I1-I4 on the reopened database.
func checkAfterCrash(db gdbi.GraphDB, pre, post *model.World, call model.Op) []string {
	var bad []string
	snap := gq.SnapshotDB(db, c03U)
	whole, tv, te := callTargets(call, pre)
	for gn, gs := range snap.Graphs {
		bad = append(bad, gs.Invariants(gn)...)
	}
	for gn, pg := range pre.Graphs {
		inflight := gn == call.Graph
		gs, ok := snap.Graphs[gn]
		if !ok {
			if !(inflight && whole) {
				bad = append(bad, fmt.Sprintf("I4 graph %s, acknowledged before the crash, is gone", gn))
			}
			continue
		}
		if inflight && whole {
			continue
		}
		for id, v := range pg.V {
			if inflight && tv[id] {
				continue
			}
			if got := gs.V[id]; model.CanonElem(got, true) != model.CanonElem(v, true) {
				bad = append(bad, fmt.Sprintf("I4 vertex %s.%s acknowledged before the crash: stored %s, found %s", gn, id, model.CanonElem(v, true), model.CanonElem(got, true)))
			}
		}
		for id, e := range pg.E {
			if inflight && te[id] {
				continue
			}
			if got := gs.E[id]; model.CanonElem(got, true) != model.CanonElem(e, true) {
				bad = append(bad, fmt.Sprintf("I4 edge %s.%s acknowledged before the crash: stored %s, found %s", gn, id, model.CanonElem(e, true), model.CanonElem(got, true)))
			}
		}
		// nothing may appear that neither the old nor the new state contains
		postG := post.Graphs[gn]
		for id, v := range gs.V {
			if _, ok := pg.V[id]; ok {
				continue
			}
			if postG != nil && inflight && model.CanonElem(postG.V[id], true) == model.CanonElem(v, true) {
				continue
			}
			bad = append(bad, fmt.Sprintf("I4 vertex %s.%s appeared from nowhere: %s", gn, id, model.CanonElem(v, true)))
		}
		for id, e := range gs.E {
			if _, ok := pg.E[id]; ok {
				continue
			}
			if postG != nil && inflight && model.CanonElem(postG.E[id], true) == model.CanonElem(e, true) {
				continue
			}
			bad = append(bad, fmt.Sprintf("I4 edge %s.%s appeared from nowhere: %s", gn, id, model.CanonElem(e, true)))
		}
		// a target element is in its old or its new form
		if inflight && postG != nil {
			for id := range tv {
				got := model.CanonElem(gs.V[id], true)
				if got != model.CanonElem(pg.V[id], true) && got != model.CanonElem(postG.V[id], true) {
					bad = append(bad, fmt.Sprintf("I4 in-flight vertex %s.%s is neither in its old nor in its new form: %s", gn, id, got))
				}
			}
			for id := range te {
				got := model.CanonElem(gs.E[id], true)
				if got != model.CanonElem(pg.E[id], true) && got != model.CanonElem(postG.E[id], true) {
					bad = append(bad, fmt.Sprintf("I4 in-flight edge %s.%s is neither in its old nor in its new form: %s", gn, id, got))
				}
			}
		}
	}
	for gn := range snap.Graphs {
		if _, ok := pre.Graphs[gn]; !ok {
			if _, ok2 := post.Graphs[gn]; !(ok2 && gn == call.Graph) {
				bad = append(bad, fmt.Sprintf("I4 graph %s appeared from nowhere", gn))
			}
		}
	}
	return bad
}

func applyAll(db gdbi.GraphDB, base int, pre []model.Op) {
	for _, o := range c03Bases[base] {
		gq.ApplyOp(db, o)
	}
	for _, o := range pre {
		gq.ApplyOp(db, o)
	}
}

func c04CrashExec(w *fw.Worker, cc c04Crash) fw.Result {
	res := fw.HeldR(false, "")
	preW := cloneWorld(cc.Base, cc.Pre, nil)
	postW := cloneWorld(cc.Base, cc.Pre, &cc.Call)
	run := func(crashAt int) (writes int, kinds []string, crashed bool, db gdbi.GraphDB, dir string, err error) {
		dir = w.NewDir("crash")
		kv, err := kvi.NewKVInterface("badger", dir, nil)
		if err != nil {
			return
		}
		fkv := deco.NewFaultKV(kv)
		gdb := kvgraph.NewKVGraph(fkv)
		applyAll(gdb, cc.Base, cc.Pre)
		fkv.Reset(crashAt)
		func() {
			defer func() {
				if r := recover(); r != nil {
					if _, ok := r.(deco.CrashSentinel); ok {
						crashed = true
						return
					}
					panic(r)
				}
			}()
			gq.ApplyOp(gdb, cc.Call)
		}()
		writes, kinds = fkv.Writes, append([]string{}, fkv.Kinds...)
		// no further grip code runs on the old handle: close the store itself
		kv.Close()
		db, err = gq.OpenBadger(dir)
		return
	}
	// count the top-level writes of the call
	W, kinds, _, db0, _, err := run(0)
	if err != nil {
		return fw.InconclusiveR("open: " + err.Error())
	}
	res.Count("calls", 1)
	res.Count("top_level_writes", int64(W))
	res.AddSet("write_sequences", cc.Call.Op+":"+strings.Join(kinds, ","))
	// sanity: without a crash, after a reopen, the state is the post state
	if d := model.DiffObs(gq.ObserveDB(db0, c03U, w.NewDir("work")), postW.Observe(c03U)); len(d) > 0 {
		db0.Close()
		return fw.ViolatedR("reopen-after-call:"+cc.Call.Op, "after the completed call and a reopen the graph differs: "+gq.Trunc(d[0], 300), map[string]interface{}{"case": cc, "differences": d})
	}
	db0.Close()
	for k := 1; k <= W; k++ {
		_, _, crashed, db, _, err := run(k)
		if err != nil {
			return fw.InconclusiveR("reopen after crash: " + err.Error())
		}
		res.Count("crash_points", 1)
		if !crashed {
			db.Close()
			return fw.InconclusiveR(fmt.Sprintf("crash point %d of %d was not reached on the second run", k, W))
		}
		bad := checkAfterCrash(db, preW, postW, cc.Call)
		if cc.Call.Op == "DeleteGraph" && len(bad) == 0 {
			// a graph whose deletion was interrupted must not come back with old content
			listed := false
			for _, g := range db.ListGraphs() {
				if g == cc.Call.Graph {
					listed = true
				}
			}
			if !listed {
				gq.ApplyOp(db, model.Op{Op: "AddGraph", Graph: cc.Call.Graph})
				if gs, ok := gq.SnapshotDB(db, c03U).Graphs[cc.Call.Graph]; ok && (len(gs.V) > 0 || len(gs.E) > 0 || len(gs.VLabels) > 0 || len(gs.ELabels) > 0) {
					bad = append(bad, fmt.Sprintf("I4 graph %s re-created after an interrupted DeleteGraph is not empty: %d vertices, %d edges, labels %v %v", cc.Call.Graph, len(gs.V), len(gs.E), gs.VLabels, gs.ELabels))
				}
				res.Count("recreate_after_interrupted_delete", 1)
			}
		}
		if len(bad) == 0 {
			// the recovered store must keep working: elements written after the crash are indexed too
			for _, gn := range db.ListGraphs() {
				gq.ApplyOp(db, model.Op{Op: "AddVertex", Graph: gn, Elems: []*model.Elem{mv("probe1", "P", nil), mv("probe2", "Q", M{"x": 1.0})}})
				gq.ApplyOp(db, model.Op{Op: "AddEdge", Graph: gn, Elems: []*model.Elem{me("probeE", "r", "probe1", "probe2", nil)}})
			}
			for gn, gs := range gq.SnapshotDB(db, c03U).Graphs {
				for _, b := range gs.Invariants(gn) {
					bad = append(bad, b+" (after writing probe elements to the recovered store)")
				}
				if gs.V["probe1"] == nil || gs.V["probe2"] == nil || gs.E["probeE"] == nil {
					bad = append(bad, fmt.Sprintf("I3 graph %s, listed after the crash, does not hold the elements written to it afterwards", gn))
				}
			}
			res.Count("post_crash_probes", 1)
		}
		db.Close()
		if len(bad) > 0 {
			inv := map[string]bool{}
			for _, b := range bad {
				for _, t := range []string{"I0", "I1", "I2", "I3", "I4"} {
					if strings.Contains(b, t+" ") {
						inv[t] = true
					}
				}
			}
			var is []string
			for _, t := range []string{"I0", "I1", "I2", "I3", "I4"} {
				if inv[t] {
					is = append(is, t)
				}
			}
			if len(bad) > 8 {
				bad = bad[:8]
			}
			return fw.ViolatedR(fmt.Sprintf("crash:%s:before-write-%d-of-%d(%s):%s", cc.Call.Op, k, W, kinds[k-1], strings.Join(is, "+")),
				fmt.Sprintf("%s interrupted before its top-level write %d of %d (%s): after reopening, %s", cc.Call, k, W, strings.Join(kinds, ","), bad[0]),
				map[string]interface{}{"case": cc, "crash_before_write": k, "writes": kinds, "violations": bad})
		}
		res.Nontrivial = true
	}
	if W == 0 {
		res.Nontrivial = false
	}
	return res
}

// c04Kill validates the "stop between atomic writes == kill" assumption: a
// child really is SIGKILLed between two top-level writes.
func c04Kill(w *fw.Worker, cc c04Crash) fw.Result {
	dir := w.NewDir("kill")
	self, _ := os.Executable()
	data := fw.MkCase("crash", cc)
	cf := filepath.Join(dir, "case.json")
	os.WriteFile(cf, data.Data, 0o644)
	res := fw.HeldR(false, "")
	for k := 1; k <= 12; k++ {
		dbdir := filepath.Join(dir, fmt.Sprintf("db%d", k))
		cmd := exec.Command(self, "c04child", cf, dbdir, fmt.Sprint(k))
		out, _ := cmd.CombinedOutput()
		if strings.Contains(string(out), "COMPLETED") {
			break // fewer than k writes
		}
		if !strings.Contains(string(out), "REACHED") {
			return fw.InconclusiveR("kill child: " + gq.Trunc(string(out), 300))
		}
		db, err := gq.OpenBadger(dbdir)
		if err != nil {
			return fw.ViolatedR("kill:reopen-failed", "database does not reopen after SIGKILL: "+err.Error(), cc)
		}
		bad := checkAfterCrash(db, cloneWorld(cc.Base, cc.Pre, nil), cloneWorld(cc.Base, cc.Pre, &cc.Call), cc.Call)
		db.Close()
		res.Count("real_kills", 1)
		if len(bad) > 0 {
			return fw.ViolatedR(fmt.Sprintf("kill:%s:before-write-%d", cc.Call.Op, k), "after SIGKILL between writes: "+bad[0], map[string]interface{}{"case": cc, "violations": bad})
		}
		res.Nontrivial = true
	}
	return res
}

// C04Child is the body of `verifrun c04child <case> <dbdir> <k>`: it performs
// the call and kills itself (SIGKILL) right before top-level write k.
func C04Child(args []string) {
	var cc c04Crash
	b, _ := os.ReadFile(args[0])
	fw.Case{Data: b}.Decode(&cc)
	var k int
	fmt.Sscan(args[2], &k)
	kv, err := kvi.NewKVInterface("badger", args[1], nil)
	if err != nil {
		fmt.Println("OPEN-ERROR", err)
		os.Exit(1)
	}
	fkv := &killKV{FaultKV: deco.NewFaultKV(kv)}
	gdb := kvgraph.NewKVGraph(fkv)
	applyAll(gdb, cc.Base, cc.Pre)
	fkv.Reset(0)
	fkv.killAt = k
	gq.ApplyOp(gdb, cc.Call)
	fmt.Println("COMPLETED")
	kv.Close()
	os.Exit(0)
}

type killKV struct {
	*deco.FaultKV
	killAt int
}

func (f *killKV) check() {
	if f.killAt > 0 && f.FaultKV.Writes+1 == f.killAt {
		fmt.Println("REACHED")
		os.Stdout.Sync()
		p, _ := os.FindProcess(os.Getpid())
		p.Kill()
		time.Sleep(10 * time.Second)
	}
}

func (f *killKV) Set(k, v []byte) error       { f.check(); return f.FaultKV.Set(k, v) }
func (f *killKV) Delete(k []byte) error       { f.check(); return f.FaultKV.Delete(k) }
func (f *killKV) DeletePrefix(k []byte) error { f.check(); return f.FaultKV.DeletePrefix(k) }
func (f *killKV) Update(u func(tx kvi.KVTransaction) error) error {
	f.check()
	return f.FaultKV.Update(u)
}
func (f *killKV) BulkWrite(u func(bl kvi.KVBulkWrite) error) error {
	f.check()
	return f.FaultKV.BulkWrite(u)
}

func c04Exec(w *fw.Worker, c fw.Case) fw.Result {
	switch c.Kind {
	case "restart":
		var h c03Case
		c.Decode(&h)
		return c04Restart(w, h)
	case "crash":
		var cc c04Crash
		c.Decode(&cc)
		if cc.Kill {
			return c04Kill(w, cc)
		}
		return c04CrashExec(w, cc)
	}
	return fw.InconclusiveR("unknown kind")
}

func init() {
	fw.Register(&fw.Property{
		ID:    "C04",
		Level: "fault_enumeration",
		Rule:  "(a) clean restarts: 12 / 400 random C03 histories of length 4-12, one variant per restart position (Badger closed and reopened before that step) plus one with two restarts, and every ordered pair of calls of the alphabet as the first two calls after a reopen (quick: from the richest base state, a graph-level call or every seventh call first and an element write second; thorough: all pairs from all base states), full C03 observation set after every step against the abstract graph - in particular elements written after the reopen must be found through the label index; (b) crash points: every call of the C03 alphabet (39 calls incl. invalid ones) in 4 pre-states, plus deletions and a relabelling around a vertex with 300 incident edges (more than 1000 keys); the top-level KV writes W of the call are counted through a fault-injecting kvi.KVInterface decorator passed to kvgraph.NewKVGraph, then for EVERY k in 1..W the pre-state is rebuilt in a fresh directory, the call is interrupted before write k, the store is closed and reopened with a fresh kvgraph, and invariants I1 (adjacency entries <-> edge records, twins), I2 (label-index entries name existing elements with that label), I3 (every element is in its indexes), I4 (everything acknowledged before is intact; in-flight elements are in their old or new form) are checked; then two vertices and an edge are written to every graph the recovered store lists and I1-I3 are checked again. The crash points of each call are enumerated completely. Non-trivial = a history with a successful mutation / a call with at least one crash point.",
		Assumptions: []string{
			"each top-level KV write (Set, Delete, DeletePrefix, committing Update, committing BulkWrite) is atomic and durable once it returns, so stopping before write k and reopening reaches the same logical state as killing the process; the thorough tier validates this for Badger by really SIGKILLing a child between writes",
			"a transaction that performs no write (kvindex's lazy recount) is not a crash point",
		},
		Exhaustive:  true,
		BatchSize:   12,
		CaseTimeout: 300 * time.Second,
		Gen:         c04Gen,
		Exec:        c04Exec,
	})
}
