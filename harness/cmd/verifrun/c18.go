package main

import (
	"context"
	"fmt"
	"math/rand"
	"sort"
	"strings"
	"sync"
	"time"

	"github.com/bmeg/grip/gdbi"
	"github.com/bmeg/grip/gripql"
	"github.com/bmeg/grip/util"

	"verifharness/fw"
	"verifharness/gq"
	"verifharness/model"
)

// C18 – bulk loading equals loading the same elements one by one.

type bulkElem struct {
	Graph string      `json:"g"` // A, A2, missing, schema
	Elem  *model.Elem `json:"e"`
}

type c18Case struct {
	Stream []bulkElem `json:"stream"`
	Batch  int        `json:"batch,omitempty"` // >0: drive util.StreamBatch directly with this batch size
}

func c18Valid(b bulkElem) bool {
	return (b.Graph == "A" || b.Graph == "A2") && model.ValidElem(b.Elem)
}

func c18ElemPool() []*model.Elem {
	return []*model.Elem{
		mv("v1", "P", M{"x": 1.0}), mv("v2", "Q", nil), mv("v3", "P", M{"n": M{"k": "deep"}}), mv("v1", "P", M{"x": 2.0}), mv("v1", "Q", M{"x": 3.0}),
		mv("", "P", nil), mv("v4", "", nil), mv("v5", "P", M{"_gid": 1.0}), mv("v6", "P", M{"bad key": 1.0}),
		me("e1", "r", "v1", "v2", M{"w": 1.0}), me("e2", "s", "v2", "v3", nil), me("e1", "r", "v1", "v2", M{"w": 2.0}), me("e3", "r", "v1", "zz", nil), me("e2", "r", "v3", "v2", nil),
		me("e4", "", "v1", "v2", nil), me("e5", "r", "", "v2", nil), me("e6", "r", "v1", "", nil), me("e7", "r", "v1", "v1", M{"_label": 1.0}),
		// a vertex and an edge may carry the same gid: they are different elements
		me("v2", "s", "v1", "v3", M{"w": 9.0}), mv("e2", "Q", M{"x": 9.0}),
	}
}

func c18Gen(g *fw.GenCtx) []fw.Case {
	var cases []fw.Case
	pool := c18ElemPool()
	rng := rand.New(rand.NewSource(g.Seed*97 + 13))
	uniq := 0
	fresh := func(valid bool) *model.Elem {
		uniq++
		if rng.Intn(3) == 0 {
			e := me(fmt.Sprintf("ue%d", uniq), []string{"r", "s"}[rng.Intn(2)], fmt.Sprintf("uv%d", rng.Intn(uniq)), fmt.Sprintf("uv%d", rng.Intn(uniq)), M{"i": float64(uniq)})
			if !valid {
				e.Label = ""
			}
			return e
		}
		v := mv(fmt.Sprintf("uv%d", uniq), []string{"P", "Q"}[rng.Intn(2)], M{"i": float64(uniq)})
		if !valid {
			v.ID = ""
		}
		return v
	}
	add := func(s []bulkElem, batch int) {
		cases = append(cases, fw.MkCase("bulk", c18Case{Stream: s, Batch: batch}))
	}
	// stream lengths around the batch sizes, valid/invalid mixes
	for _, n := range []int{0, 1, 2, 49, 50, 51, 99, 100, 101, 999, 1000, 1001, 2050} {
		if g.Quick() && n > 1001 {
			continue
		}
		for _, invalidEvery := range []int{0, 7, 2} {
			var s []bulkElem
			for i := 0; i < n; i++ {
				valid := invalidEvery == 0 || i%invalidEvery != 0
				s = append(s, bulkElem{"A", fresh(valid)})
			}
			add(s, 0)
			for _, b := range []int{1, 2, 50, 100} {
				if n <= 101 || b >= 50 {
					add(s, b)
				}
			}
		}
	}
	// repeated ids with changing data, from the pool: all pairs and random longer streams
	for _, a := range pool {
		add([]bulkElem{{"A", a}}, 0)
		for _, b := range pool {
			if a.Edge == b.Edge && a.ID == b.ID && a.ID != "" && (a.Label != b.Label || a.From != b.From || a.To != b.To) && g.Avoid["c03-same-id-twice-in-one-batch"] {
				continue // known finding of C03: same id twice in one batch with a different shape
			}
			add([]bulkElem{{"A", a}, {"A", b}}, 0)
		}
	}
	// interleaved target graphs: every switching pattern of length <= 4
	targets := []string{"A", "A2", "missing", "schema", "blank"} // blank = an element without a graph name
	var rec func(p []string)
	rec = func(p []string) {
		if len(p) > 0 {
			var s []bulkElem
			for i, t := range p {
				s = append(s, bulkElem{t, mv(fmt.Sprintf("sw%d", i), "P", M{"i": float64(i)})})
				if i%2 == 1 {
					s = append(s, bulkElem{t, me(fmt.Sprintf("swe%d", i), "r", fmt.Sprintf("sw%d", i), "sw0", nil)})
				}
			}
			add(s, 0)
		}
		if len(p) == 4 {
			return
		}
		for _, t := range targets {
			if t == "blank" && len(p) >= 3 {
				continue // elements without a graph name: in patterns up to length 3
			}
			rec(append(append([]string{}, p...), t))
		}
	}
	rec(nil)
	// random streams
	n := g.Pick(200, 5000)
	for i := 0; i < n; i++ {
		ln := 1 + rng.Intn(30)
		var s []bulkElem
		seen := map[string]*model.Elem{}
		for j := 0; j < ln; j++ {
			t := targets[rng.Intn(len(targets))]
			if rng.Intn(3) > 0 {
				t = "A"
			}
			e := pool[rng.Intn(len(pool))]
			k := fmt.Sprintf("%s|%v|%s", t, e.Edge, e.ID)
			if p, ok := seen[k]; ok && e.ID != "" && (p.Label != e.Label || p.From != e.From || p.To != e.To) {
				continue
			}
			seen[k] = e
			s = append(s, bulkElem{t, e})
		}
		b := 0
		if i%4 == 0 {
			b = []int{1, 2, 50, 100}[rng.Intn(4)]
		}
		add(s, b)
	}
	return cases
}

// ---------------------------------------------------------------------------

type c18Env struct {
	ls *gq.LiveServer
	n  int
}

func graphState(db gdbi.GraphDB, name string) map[string]string {
	out := map[string]string{}
	gi, err := db.Graph(name)
	if err != nil {
		out["open"] = "error"
		return out
	}
	gs := gq.SnapshotGraph(gi, model.Universe{})
	var vs, es []string
	for _, v := range gs.V {
		vs = append(vs, model.CanonElem(v, true))
	}
	for _, e := range gs.E {
		es = append(es, model.CanonElem(e, true))
	}
	sort.Strings(vs)
	sort.Strings(es)
	out["V"] = strings.Join(vs, "\n")
	out["E"] = strings.Join(es, "\n")
	vl := append([]string{}, gs.VLabels...)
	el := append([]string{}, gs.ELabels...)
	sort.Strings(vl)
	sort.Strings(el)
	out["VLabels"] = strings.Join(vl, ",")
	out["ELabels"] = strings.Join(el, ",")
	out["dups"] = fmt.Sprint(gs.VDup, gs.EDup)
	out["invariants"] = strings.Join(gs.Invariants("g"), "\n")
	return out
}

func toPB(graph string, e *model.Elem) *gripql.GraphElement {
	if e.Edge {
		return &gripql.GraphElement{Graph: graph, Edge: &gripql.Edge{Gid: e.ID, Label: e.Label, From: e.From, To: e.To, Data: gq.Struct(e.Data)}}
	}
	return &gripql.GraphElement{Graph: graph, Vertex: &gripql.Vertex{Gid: e.ID, Label: e.Label, Data: gq.Struct(e.Data)}}
}

func c18Exec(w *fw.Worker, c fw.Case) fw.Result {
	var cc c18Case
	c.Decode(&cc)
	if cc.Batch > 0 {
		return c18StreamBatch(cc)
	}
	env := w.State("c18", func() interface{} {
		ls, err := gq.StartServer(w.NewDir("c18srv"), gq.ServerOpts{})
		if err != nil {
			panic(err)
		}
		return &c18Env{ls: ls}
	}).(*c18Env)
	env.n++
	ctx := context.Background()
	names := map[string]string{
		"A": fmt.Sprintf("a%d", env.n), "A2": fmt.Sprintf("a%dx", env.n), "missing": fmt.Sprintf("missing%d", env.n), "schema": fmt.Sprintf("a%d__schema__", env.n), "blank": "",
		"B": fmt.Sprintf("b%d", env.n), "B2": fmt.Sprintf("b%dx", env.n),
	}
	for _, k := range []string{"A", "A2", "B", "B2"} {
		if _, err := env.ls.E.AddGraph(ctx, &gripql.GraphID{Graph: names[k]}); err != nil {
			return fw.InconclusiveR("setup: " + err.Error())
		}
	}
	defer func() {
		for _, k := range []string{"A", "A2", "B", "B2"} {
			env.ls.E.DeleteGraph(ctx, &gripql.GraphID{Graph: names[k]})
		}
	}()
	// bulk load into A / A2
	st, err := env.ls.E.BulkAdd(ctx)
	if err != nil {
		return fw.InconclusiveR("BulkAdd: " + err.Error())
	}
	valid, invalid := 0, 0
	for _, b := range cc.Stream {
		if err := st.Send(toPB(names[b.Graph], b.Elem)); err != nil {
			return fw.InconclusiveR("BulkAdd send: " + err.Error())
		}
		if c18Valid(b) {
			valid++
		} else {
			invalid++
		}
	}
	rep, err := st.CloseAndRecv()
	if err != nil {
		return fw.ViolatedR("bulk:error", "BulkAdd failed: "+err.Error(), cc)
	}
	// the same valid elements one at a time into the twins
	for _, b := range cc.Stream {
		if !c18Valid(b) {
			continue
		}
		twin := names[map[string]string{"A": "B", "A2": "B2"}[b.Graph]]
		var err error
		if b.Elem.Edge {
			_, err = env.ls.E.AddEdge(ctx, toPB(twin, b.Elem))
		} else {
			_, err = env.ls.E.AddVertex(ctx, toPB(twin, b.Elem))
		}
		if err != nil {
			return fw.InconclusiveR(fmt.Sprintf("sequential add of a valid element failed: %v", err))
		}
	}
	res := fw.HeldR(valid > 0, "")
	res.Count("elements", int64(len(cc.Stream)))
	res.AddSet("stream_lengths", fmt.Sprint(len(cc.Stream)))
	detail := map[string]interface{}{"stream_length": len(cc.Stream), "valid": valid, "invalid": invalid, "insertCount": rep.InsertCount, "errorCount": rep.ErrorCount}
	if len(cc.Stream) <= 40 {
		detail["stream"] = cc.Stream
	}
	dupKey := ""
	seenShape := map[string]*model.Elem{}
	for _, b := range cc.Stream {
		if !c18Valid(b) {
			continue
		}
		k := fmt.Sprintf("%s|%v|%s", b.Graph, b.Elem.Edge, b.Elem.ID)
		if p, ok := seenShape[k]; ok && (p.Label != b.Elem.Label || p.From != b.Elem.From || p.To != b.Elem.To) {
			dupKey = "bulk:batch-duplicate-id"
		}
		seenShape[k] = b.Elem
	}
	for _, pair := range [][2]string{{"A", "B"}, {"A2", "B2"}} {
		sa, sb := graphState(env.ls.DB, names[pair[0]]), graphState(env.ls.DB, names[pair[1]])
		for k, vb := range sb {
			if sa[k] != vb {
				detail["difference"] = fmt.Sprintf("%s: bulk-loaded graph has %s, one-by-one graph has %s", k, gq.Trunc(sa[k], 600), gq.Trunc(vb, 600))
				key := "bulk:state:" + k
				if dupKey != "" {
					key = dupKey
				}
				return fw.ViolatedR(key, fmt.Sprintf("BulkAdd of %d elements leaves graph %s different from adding the %d valid elements one by one: %s", len(cc.Stream), pair[0], valid, detail["difference"]), detail)
			}
		}
	}
	for _, gname := range env.ls.DB.ListGraphs() {
		if gname == names["missing"] || gname == names["schema"] {
			return fw.ViolatedR("bulk:graph-created", "BulkAdd created graph "+gname, detail)
		}
	}
	if int(rep.InsertCount) != valid {
		return fw.ViolatedR("bulk:insert-count", fmt.Sprintf("InsertCount=%d but the stream holds %d valid elements (of %d)", rep.InsertCount, valid, len(cc.Stream)), detail)
	}
	if int(rep.ErrorCount) != invalid {
		return fw.ViolatedR("bulk:error-count", fmt.Sprintf("ErrorCount=%d but the stream holds %d invalid elements (of %d)", rep.ErrorCount, invalid, len(cc.Stream)), detail)
	}
	return res
}

// c18StreamBatch drives util.StreamBatch directly against a recording adder.
func c18StreamBatch(cc c18Case) fw.Result {
	ch := make(chan *gdbi.GraphElement, 10)
	var mu sync.Mutex
	var gotV, gotE []string
	var sizes []int
	vAdd := func(vs []*gdbi.Vertex) error {
		mu.Lock()
		defer mu.Unlock()
		sizes = append(sizes, len(vs))
		for _, v := range vs {
			gotV = append(gotV, model.CanonElem(gq.ToModelElem(v, false), true))
		}
		return nil
	}
	eAdd := func(es []*gdbi.Edge) error {
		mu.Lock()
		defer mu.Unlock()
		sizes = append(sizes, len(es))
		for _, e := range es {
			gotE = append(gotE, model.CanonElem(gq.ToModelElem(e, true), true))
		}
		return nil
	}
	var wantV, wantE []string
	invalid := 0
	go func() {
		for _, b := range cc.Stream {
			g := "G"
			if b.Graph != "A" {
				g = "other"
			}
			el := gq.FromModelElem(b.Elem)
			if b.Elem.Edge {
				ch <- &gdbi.GraphElement{Graph: g, Edge: el}
			} else {
				ch <- &gdbi.GraphElement{Graph: g, Vertex: el}
			}
		}
		close(ch)
	}()
	for _, b := range cc.Stream {
		if b.Graph == "A" && model.ValidElem(b.Elem) {
			if b.Elem.Edge {
				wantE = append(wantE, model.CanonElem(b.Elem, true))
			} else {
				c := *b.Elem
				wantV = append(wantV, model.CanonElem(&c, true))
			}
		} else {
			invalid++
		}
	}
	err := util.StreamBatch(ch, cc.Batch, "G", vAdd, eAdd)
	res := fw.HeldR(len(wantV)+len(wantE) > 0, "")
	res.Count("streambatch_elements", int64(len(cc.Stream)))
	detail := map[string]interface{}{"batch": cc.Batch, "stream_length": len(cc.Stream), "batch_sizes": sizes}
	if strings.Join(gotV, "\n") != strings.Join(wantV, "\n") {
		return fw.ViolatedR("streambatch:vertices", fmt.Sprintf("StreamBatch(batch=%d) handed %d vertices to the adder, expected the %d valid ones in order", cc.Batch, len(gotV), len(wantV)), detail)
	}
	if strings.Join(gotE, "\n") != strings.Join(wantE, "\n") {
		return fw.ViolatedR("streambatch:edges", fmt.Sprintf("StreamBatch(batch=%d) handed %d edges to the adder, expected the %d valid ones in order: got %s want %s", cc.Batch, len(gotE), len(wantE), gq.Trunc(strings.Join(gotE, " "), 300), gq.Trunc(strings.Join(wantE, " "), 300)), detail)
	}
	if (err != nil) != (invalid > 0) {
		return fw.ViolatedR("streambatch:error", fmt.Sprintf("StreamBatch returned error=%v for a stream with %d invalid elements", err, invalid), detail)
	}
	for _, s := range sizes {
		if s > cc.Batch {
			return fw.ViolatedR("streambatch:batch-size", fmt.Sprintf("a batch of %d exceeds the batch size %d", s, cc.Batch), detail)
		}
	}
	return res
}

func init() {
	fw.Register(&fw.Property{
		ID: "C18",
		PeerWaitFrames: []string{ // a client waiting for the in-process server's answer
			"google.golang.org/grpc/internal/transport.(*Stream).waitOnHeader",
			"google.golang.org/grpc/internal/transport.(*recvBufferReader).read",
			"google.golang.org/grpc/internal/transport.(*writeQuota).get",
		},
		Rule: "twin graphs on one live server: the stream goes through Edit/BulkAdd over gRPC into graph A (and A2), the valid elements of the same stream go one at a time through AddVertex/AddEdge into B (and B2); the complete states (all vertices and edges with data, label listings, duplicates, index invariants) must be equal and InsertCount/ErrorCount must equal the number of valid/invalid elements. Streams: lengths 0,1,2,49,50,51,99,100,101,999,1000,1001 (2050 in thorough) x {all valid, every 7th invalid, every 2nd invalid}; all ordered pairs from an 18-element pool (repeated ids with changing data, blank id/label/from/to, reserved and invalid property names); every switching pattern of length <= 4 over {A, A2, missing graph, schema graph, no graph name}; 200 / 5000 random streams. util.StreamBatch is driven directly with batch sizes 1, 2, 50, 100 against a recording adder (valid elements, in order, batches within size). Non-trivial = at least one valid element.",
		Assumptions: []string{
			"not generated because unspecified: elements carrying both a vertex and an edge or neither, edges without an id (the server assigns one), the same id twice in one stream with a different label/endpoints (known finding of C03)",
			"the accounts variant (elements for graphs the caller may not write) is exercised by C05",
		},
		BatchSize:   40,
		CaseTimeout: 60 * time.Second,
		Gen:         c18Gen,
		Exec:        c18Exec,
	})
}
