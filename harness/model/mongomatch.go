package model

import (
	"fmt"
	"reflect"
	"strings"
)

// MongoMatch interprets the fragment of MongoDB's $match language that the
// GRIP compiler emits for has-expressions, for documents whose leaves are
// scalars: $and $or $nor $not $eq $ne $gt $gte $lt $lte $in $exists $type.
// Semantics follow the MongoDB manual: comparison operators only match values
// of the same BSON type class, $ne/$not/$nin match missing fields, $eq null
// matches missing fields. An error means the server would reject the filter.
func MongoMatch(filter interface{}, doc map[string]interface{}) (bool, error) {
	f, ok := toMap(filter)
	if !ok {
		return false, fmt.Errorf("filter is not a document: %T", filter)
	}
	for k, v := range f {
		var r bool
		var err error
		switch k {
		case "$and", "$or", "$nor":
			subs, ok := toSlice(v)
			if !ok || len(subs) == 0 {
				return false, fmt.Errorf("%s must be a nonempty array", k)
			}
			any, all := false, true
			for _, s := range subs {
				b, err := MongoMatch(s, doc)
				if err != nil {
					return false, err
				}
				any = any || b
				all = all && b
			}
			switch k {
			case "$and":
				r = all
			case "$or":
				r = any
			default:
				r = !any
			}
		default:
			if strings.HasPrefix(k, "$") {
				return false, fmt.Errorf("unknown top-level operator %s", k)
			}
			val, present := docLookup(doc, k)
			r, err = matchField(v, val, present)
			if err != nil {
				return false, err
			}
		}
		if !r {
			return false, nil
		}
	}
	return true, nil
}

func toMap(v interface{}) (map[string]interface{}, bool) {
	if v == nil {
		return nil, false
	}
	if m, ok := v.(map[string]interface{}); ok {
		return m, true
	}
	rv := reflect.ValueOf(v)
	if rv.Kind() == reflect.Map && rv.Type().Key().Kind() == reflect.String {
		out := map[string]interface{}{}
		for _, k := range rv.MapKeys() {
			out[k.String()] = rv.MapIndex(k).Interface()
		}
		return out, true
	}
	return nil, false
}

func toSlice(v interface{}) ([]interface{}, bool) {
	if v == nil {
		return nil, false
	}
	if s, ok := v.([]interface{}); ok {
		return s, true
	}
	rv := reflect.ValueOf(v)
	if rv.Kind() == reflect.Slice {
		out := make([]interface{}, rv.Len())
		for i := range out {
			out[i] = rv.Index(i).Interface()
		}
		return out, true
	}
	return nil, false
}

func docLookup(doc map[string]interface{}, path string) (interface{}, bool) {
	var cur interface{} = doc
	for _, p := range strings.Split(path, ".") {
		m, ok := toMap(cur)
		if !ok {
			return nil, false
		}
		v, ok := m[p]
		if !ok {
			return nil, false
		}
		cur = v
	}
	return cur, true
}

func isOperatorDoc(v interface{}) (map[string]interface{}, bool) {
	m, ok := toMap(v)
	if !ok || len(m) == 0 {
		return nil, false
	}
	for k := range m {
		if !strings.HasPrefix(k, "$") {
			return nil, false
		}
	}
	return m, true
}

func normNum(v interface{}) interface{} {
	switch x := v.(type) {
	case int:
		return float64(x)
	case int32:
		return float64(x)
	case int64:
		return float64(x)
	case uint32:
		return float64(x)
	case float32:
		return float64(x)
	}
	return v
}

func typeClass(v interface{}) string {
	switch normNum(v).(type) {
	case nil:
		return "null"
	case float64:
		return "number"
	case string:
		return "string"
	case bool:
		return "bool"
	}
	if _, ok := toSlice(v); ok {
		return "array"
	}
	if _, ok := toMap(v); ok {
		return "object"
	}
	return "other"
}

func mongoEq(docVal interface{}, present bool, arg interface{}) bool {
	arg = normNum(arg)
	if arg == nil {
		return !present || docVal == nil
	}
	if !present {
		return false
	}
	return DeepEq(normNum(docVal), arg)
}

func mongoCmp(op string, docVal interface{}, present bool, arg interface{}) bool {
	arg = normNum(arg)
	dv := normNum(docVal)
	if arg == nil {
		// null compares equal to null/missing only
		return (op == "$gte" || op == "$lte") && (!present || dv == nil)
	}
	if !present || typeClass(dv) != typeClass(arg) {
		return false
	}
	var c int
	switch a := arg.(type) {
	case float64:
		d := dv.(float64)
		switch {
		case d < a:
			c = -1
		case d > a:
			c = 1
		}
	case string:
		c = strings.Compare(dv.(string), a)
	case bool:
		d := dv.(bool)
		switch {
		case !d && a:
			c = -1
		case d && !a:
			c = 1
		}
	default:
		return false
	}
	switch op {
	case "$gt":
		return c > 0
	case "$gte":
		return c >= 0
	case "$lt":
		return c < 0
	default:
		return c <= 0
	}
}

func matchField(spec interface{}, docVal interface{}, present bool) (bool, error) {
	ops, isOps := isOperatorDoc(spec)
	if !isOps {
		return mongoEq(docVal, present, spec), nil
	}
	for op, arg := range ops {
		var r bool
		switch op {
		case "$eq":
			r = mongoEq(docVal, present, arg)
		case "$ne":
			r = !mongoEq(docVal, present, arg)
		case "$gt", "$gte", "$lt", "$lte":
			r = mongoCmp(op, docVal, present, arg)
		case "$in", "$nin":
			l, ok := toSlice(arg)
			if !ok {
				return false, fmt.Errorf("%s needs an array", op)
			}
			in := false
			for _, a := range l {
				if mongoEq(docVal, present, a) {
					in = true
				}
			}
			r = in
			if op == "$nin" {
				r = !in
			}
		case "$not":
			if _, ok := isOperatorDoc(arg); !ok {
				return false, fmt.Errorf("$not needs an operator document")
			}
			b, err := matchField(arg, docVal, present)
			if err != nil {
				return false, err
			}
			r = !b
		case "$exists":
			want, _ := arg.(bool)
			r = present == want
		case "$type":
			t, _ := arg.(string)
			r = present && typeClass(docVal) == t
		default:
			return false, fmt.Errorf("unsupported operator %s", op)
		}
		if !r {
			return false, nil
		}
	}
	return true, nil
}
