package model

import (
	"fmt"
	"sort"

	"github.com/bmeg/grip/gripql"
)

// EvalLoop interprets a traversal with mark/jump (and set/increment) by the
// iterative definition in the documentation: a traveler that reaches a jump
// and satisfies its condition (no condition = always) re-enters right after
// the mark; with emit a copy continues down the chain regardless of the
// condition; without emit nothing continues. It is a worklist over
// (row, program counter) and therefore independent of any schedule.
func EvalLoop(g *Graph, stmts []*gripql.GraphStatement, maxSteps int) ([]string, error) {
	marks := map[string]int{}
	for i, s := range stmts {
		if m, ok := s.GetStatement().(*gripql.GraphStatement_Mark); ok {
			marks[m.Mark] = i
		}
	}
	type item struct {
		row *Row
		pc  int
	}
	end := len(stmts)
	countLast := false
	if end > 0 {
		if _, ok := stmts[end-1].GetStatement().(*gripql.GraphStatement_Count); ok {
			countLast = true
			end--
		}
	}
	work := []item{{&Row{Marks: map[string]*Elem{}}, 0}}
	var results []string
	steps := 0
	for len(work) > 0 {
		it := work[len(work)-1]
		work = work[:len(work)-1]
		steps++
		if steps > maxSteps {
			return nil, fmt.Errorf("model: loop does not terminate within %d steps", maxSteps)
		}
		if it.pc == end {
			results = append(results, CanonRow(it.row, TNone))
			continue
		}
		switch st := stmts[it.pc].GetStatement().(type) {
		case *gripql.GraphStatement_Mark:
			work = append(work, item{it.row, it.pc + 1})
		case *gripql.GraphStatement_Jump:
			target, ok := marks[st.Jump.GetMark()]
			if !ok {
				return nil, fmt.Errorf("jump to missing mark %s", st.Jump.GetMark())
			}
			if st.Jump.GetExpression() == nil || EvalHas(st.Jump.GetExpression(), it.row.lookupNull) {
				work = append(work, item{it.row, target + 1})
			}
			if st.Jump.GetEmit() {
				work = append(work, item{it.row, it.pc + 1})
			}
		default:
			next, err := g.Step(stmts[it.pc], []*Row{it.row})
			if err != nil {
				return nil, err
			}
			for _, r := range next {
				work = append(work, item{r, it.pc + 1})
			}
		}
	}
	if countLast {
		return []string{fmt.Sprintf(`{"count":%d}`, len(results))}, nil
	}
	sort.Strings(results)
	return results, nil
}
