package model

import (
	"encoding/json"
	"fmt"
	"sort"
	"strings"

	"github.com/bmeg/grip/gripql"
)

// Type of the rows a statement sequence produces.
type Type int

const (
	TNone Type = iota
	TVertex
	TEdge
	TCount
	TAggregation
	TSelection
	TRender
	TPath
)

func (t Type) String() string {
	return [...]string{"none", "vertex", "edge", "count", "aggregation", "selection", "render", "path"}[t]
}

func (t Type) elem() bool { return t == TVertex || t == TEdge }

func strList(l interface{ AsSlice() []interface{} }) []string {
	var out []string
	for _, v := range l.AsSlice() {
		s, _ := v.(string)
		out = append(out, s)
	}
	return out
}

// StepName names the statement kind (for evidence and finding keys).
func StepName(s *gripql.GraphStatement) string {
	n := fmt.Sprintf("%T", s.GetStatement())
	n = strings.TrimPrefix(n, "*gripql.GraphStatement_")
	return n
}

// ValidMarkName is the documented rule for as() names.
func ValidMarkName(k string) bool {
	return k != "" && k != "__current__" && !reservedFields[k] && ValidName(k)
}

// TypeCheck is the static typing pass: the oracle for "an ill-typed traversal
// is rejected before any row is produced".
func TypeCheck(stmts []*gripql.GraphStatement) (Type, map[string]Type, error) {
	t := TNone
	marks := map[string]Type{}
	if len(stmts) == 0 {
		return TNone, marks, nil
	}
	for i, gs := range stmts {
		name := StepName(gs)
		if i == 0 && name != "V" && name != "E" {
			return t, marks, fmt.Errorf("first statement is not V() or E()")
		}
		switch st := gs.GetStatement().(type) {
		case *gripql.GraphStatement_V:
			if i != 0 {
				return t, marks, fmt.Errorf("V only valid at the beginning")
			}
			t = TVertex
		case *gripql.GraphStatement_E:
			if i != 0 {
				return t, marks, fmt.Errorf("E only valid at the beginning")
			}
			t = TEdge
		case *gripql.GraphStatement_In, *gripql.GraphStatement_Out, *gripql.GraphStatement_Both,
			*gripql.GraphStatement_InNull, *gripql.GraphStatement_OutNull:
			if !t.elem() {
				return t, marks, fmt.Errorf("%s needs a vertex or edge, have %s", name, t)
			}
			t = TVertex
		case *gripql.GraphStatement_InE, *gripql.GraphStatement_OutE, *gripql.GraphStatement_BothE,
			*gripql.GraphStatement_InENull, *gripql.GraphStatement_OutENull:
			if t != TVertex {
				return t, marks, fmt.Errorf("%s needs a vertex, have %s", name, t)
			}
			t = TEdge
		case *gripql.GraphStatement_Has:
			if !t.elem() {
				return t, marks, fmt.Errorf("has needs a vertex or edge, have %s", t)
			}
		case *gripql.GraphStatement_HasLabel:
			if !t.elem() || len(st.HasLabel.GetValues()) == 0 {
				return t, marks, fmt.Errorf("hasLabel ill-typed")
			}
		case *gripql.GraphStatement_HasId:
			if !t.elem() || len(st.HasId.GetValues()) == 0 {
				return t, marks, fmt.Errorf("hasId ill-typed")
			}
		case *gripql.GraphStatement_HasKey:
			if !t.elem() || len(st.HasKey.GetValues()) == 0 {
				return t, marks, fmt.Errorf("hasKey ill-typed")
			}
		case *gripql.GraphStatement_Limit, *gripql.GraphStatement_Skip, *gripql.GraphStatement_Range:
			// any row type
		case *gripql.GraphStatement_Count:
			t = TCount
		case *gripql.GraphStatement_Distinct:
			if !t.elem() {
				return t, marks, fmt.Errorf("distinct needs a vertex or edge, have %s", t)
			}
		case *gripql.GraphStatement_As:
			if !t.elem() {
				return t, marks, fmt.Errorf("as needs a vertex or edge, have %s", t)
			}
			if !ValidMarkName(st.As) {
				return t, marks, fmt.Errorf("invalid mark name %q", st.As)
			}
			marks[st.As] = t
		case *gripql.GraphStatement_Select:
			if !t.elem() {
				return t, marks, fmt.Errorf("select needs a vertex or edge, have %s", t)
			}
			ms := st.Select.GetMarks()
			if len(ms) == 0 {
				return t, marks, fmt.Errorf("select without marks")
			}
			for _, m := range ms {
				if _, ok := marks[m]; !ok {
					return t, marks, fmt.Errorf("select of undefined mark %q", m)
				}
			}
			if len(ms) == 1 {
				t = marks[ms[0]]
			} else {
				t = TSelection
			}
		case *gripql.GraphStatement_Render:
			if !t.elem() {
				return t, marks, fmt.Errorf("render needs a vertex or edge, have %s", t)
			}
			t = TRender
		case *gripql.GraphStatement_Path:
			if !t.elem() {
				return t, marks, fmt.Errorf("path needs a vertex or edge, have %s", t)
			}
			t = TPath
		case *gripql.GraphStatement_Unwind:
			if !t.elem() {
				return t, marks, fmt.Errorf("unwind needs a vertex or edge, have %s", t)
			}
		case *gripql.GraphStatement_Fields:
			if !t.elem() {
				return t, marks, fmt.Errorf("fields needs a vertex or edge, have %s", t)
			}
		case *gripql.GraphStatement_Aggregate:
			if !t.elem() {
				return t, marks, fmt.Errorf("aggregate needs a vertex or edge, have %s", t)
			}
			t = TAggregation
		default:
			return t, marks, fmt.Errorf("step %s is outside the modelled set", name)
		}
	}
	return t, marks, nil
}

type PathItem struct {
	Vertex string
	Edge   string
}

// Row is (current, marks, path).
type Row struct {
	Cur   *Elem
	Marks map[string]*Elem
	Path  []PathItem
	// terminal forms
	Render    interface{}
	IsRender  bool
	Selection map[string]*Elem
	IsPath    bool
}

func (r *Row) withCur(e *Elem) *Row {
	n := &Row{Cur: e, Marks: r.Marks}
	n.Path = append(append([]PathItem{}, r.Path...), pathItem(e))
	return n
}

func pathItem(e *Elem) PathItem {
	if e.Edge {
		return PathItem{Edge: e.ID}
	}
	return PathItem{Vertex: e.ID}
}

// Lookup resolves a field reference on a row: _gid/_label/_from/_to/_data are
// element fields, $m. addresses mark m, anything else is a dotted path into
// the data. ok=false when the path does not exist.
func (r *Row) Lookup(path string) (val interface{}, ok bool) {
	parts := strings.Split(path, ".")
	el := r.Cur
	if strings.HasPrefix(parts[0], "$") {
		ns := strings.TrimPrefix(parts[0], "$")
		parts = parts[1:]
		if ns != "" {
			el = r.Marks[ns]
		}
	}
	if el == nil || len(parts) == 0 {
		return nil, false
	}
	var cur interface{}
	switch parts[0] {
	case "_gid":
		cur = el.ID
	case "_label":
		cur = el.Label
	case "_from":
		cur = el.From
	case "_to":
		cur = el.To
	case "_data":
		if el.Data == nil {
			cur = map[string]interface{}{}
		} else {
			cur = map[string]interface{}(el.Data)
		}
	default:
		v, ok := el.Data[parts[0]]
		if !ok {
			return nil, false
		}
		cur = v
	}
	for _, p := range parts[1:] {
		m, isMap := cur.(map[string]interface{})
		if !isMap {
			return nil, false
		}
		v, ok := m[p]
		if !ok {
			return nil, false
		}
		cur = v
	}
	return cur, true
}

func (r *Row) lookupNull(path string) interface{} {
	v, _ := r.Lookup(path)
	return v
}

func inList(l []string, s string) bool {
	for _, x := range l {
		if x == s {
			return true
		}
	}
	return false
}

func sortedElems(m map[string]*Elem) []*Elem {
	var ids []string
	for id := range m {
		ids = append(ids, id)
	}
	sort.Strings(ids)
	out := make([]*Elem, len(ids))
	for i, id := range ids {
		out[i] = m[id]
	}
	return out
}

func (g *Graph) adj(r *Row, dir string, toEdge bool, labels []string) []*Row {
	var out []*Row
	cur := r.Cur
	if cur.Edge {
		// from an edge: endpoints that exist; label lists are not modelled
		if toEdge {
			return nil
		}
		if dir == "in" || dir == "both" {
			if v, ok := g.V[cur.From]; ok {
				out = append(out, r.withCur(v))
			}
		}
		if dir == "out" || dir == "both" {
			if v, ok := g.V[cur.To]; ok {
				out = append(out, r.withCur(v))
			}
		}
		return out
	}
	step := func(d string) {
		for _, e := range sortedElems(g.E) {
			if len(labels) > 0 && !inList(labels, e.Label) {
				continue
			}
			var far string
			if d == "out" && e.From == cur.ID {
				far = e.To
			} else if d == "in" && e.To == cur.ID {
				far = e.From
			} else {
				continue
			}
			if toEdge {
				out = append(out, r.withCur(e))
			} else if v, ok := g.V[far]; ok {
				out = append(out, r.withCur(v))
			}
		}
	}
	if dir == "in" || dir == "both" {
		step("in")
	}
	if dir == "out" || dir == "both" {
		step("out")
	}
	return out
}

func renderTemplate(r *Row, t interface{}) interface{} {
	switch x := t.(type) {
	case string:
		return r.lookupNull(x)
	case map[string]interface{}:
		o := map[string]interface{}{}
		for k, v := range x {
			o[k] = renderTemplate(r, v)
		}
		return o
	case []interface{}:
		o := make([]interface{}, len(x))
		for i, v := range x {
			o[i] = renderTemplate(r, v)
		}
		return o
	}
	return nil
}

// Step applies one statement to a list of rows (everything except the
// order-sensitive tail steps and mark/jump, which the callers handle).
func (g *Graph) Step(gs *gripql.GraphStatement, rows []*Row) ([]*Row, error) {
	var next []*Row
	switch st := gs.GetStatement().(type) {
	case *gripql.GraphStatement_V:
		ids := strList(st.V)
		if len(ids) == 0 {
			for _, v := range sortedElems(g.V) {
				next = append(next, rows[0].withCur(v))
			}
		} else {
			for _, id := range ids {
				if v, ok := g.V[id]; ok {
					next = append(next, rows[0].withCur(v))
				}
			}
		}
	case *gripql.GraphStatement_E:
		ids := strList(st.E)
		if len(ids) == 0 {
			for _, e := range sortedElems(g.E) {
				next = append(next, rows[0].withCur(e))
			}
		} else {
			for _, id := range ids {
				if e, ok := g.E[id]; ok {
					next = append(next, rows[0].withCur(e))
				}
			}
		}
	case *gripql.GraphStatement_Out:
		for _, r := range rows {
			next = append(next, g.adj(r, "out", false, strList(st.Out))...)
		}
	case *gripql.GraphStatement_In:
		for _, r := range rows {
			next = append(next, g.adj(r, "in", false, strList(st.In))...)
		}
	case *gripql.GraphStatement_Both:
		for _, r := range rows {
			next = append(next, g.adj(r, "both", false, strList(st.Both))...)
		}
	case *gripql.GraphStatement_OutE:
		for _, r := range rows {
			next = append(next, g.adj(r, "out", true, strList(st.OutE))...)
		}
	case *gripql.GraphStatement_InE:
		for _, r := range rows {
			next = append(next, g.adj(r, "in", true, strList(st.InE))...)
		}
	case *gripql.GraphStatement_BothE:
		for _, r := range rows {
			next = append(next, g.adj(r, "both", true, strList(st.BothE))...)
		}
	case *gripql.GraphStatement_Has:
		for _, r := range rows {
			r := r
			if EvalHas(st.Has, r.lookupNull) {
				next = append(next, r)
			}
		}
	case *gripql.GraphStatement_HasLabel:
		ls := strList(st.HasLabel)
		for _, r := range rows {
			if inList(ls, r.Cur.Label) {
				next = append(next, r)
			}
		}
	case *gripql.GraphStatement_HasId:
		ls := strList(st.HasId)
		for _, r := range rows {
			if inList(ls, r.Cur.ID) {
				next = append(next, r)
			}
		}
	case *gripql.GraphStatement_HasKey:
		ks := strList(st.HasKey)
		for _, r := range rows {
			all := true
			for _, k := range ks {
				if _, ok := r.Lookup(k); !ok {
					all = false
				}
			}
			if all {
				next = append(next, r)
			}
		}
	case *gripql.GraphStatement_As:
		for _, r := range rows {
			n := *r
			n.Marks = map[string]*Elem{}
			for k, v := range r.Marks {
				n.Marks[k] = v
			}
			n.Marks[st.As] = r.Cur
			next = append(next, &n)
		}
	case *gripql.GraphStatement_Select:
		ms := st.Select.GetMarks()
		for _, r := range rows {
			if len(ms) == 1 {
				next = append(next, r.withCur(r.Marks[ms[0]]))
			} else {
				sel := map[string]*Elem{}
				for _, m := range ms {
					sel[m] = r.Marks[m]
				}
				next = append(next, &Row{Selection: sel})
			}
		}
	case *gripql.GraphStatement_Fields:
		keys := strList(st.Fields)
		for _, r := range rows {
			n := *r
			c := *r.Cur
			c.Data = selectFields(r.Cur.Data, keys)
			n.Cur = &c
			next = append(next, &n)
		}
	case *gripql.GraphStatement_Render:
		tmpl := st.Render.AsInterface()
		for _, r := range rows {
			next = append(next, &Row{IsRender: true, Render: renderTemplate(r, tmpl)})
		}
	case *gripql.GraphStatement_Path:
		for _, r := range rows {
			next = append(next, &Row{IsPath: true, Path: r.Path})
		}
	case *gripql.GraphStatement_Unwind:
		for _, r := range rows {
			v, _ := r.Lookup(st.Unwind)
			l, isList := v.([]interface{})
			vals := []interface{}{nil}
			if isList && len(l) > 0 {
				vals = l
			}
			for _, x := range vals {
				c := r.Cur.Clone()
				if c.Data == nil {
					c.Data = map[string]interface{}{}
				}
				c.Data[st.Unwind] = cloneJSON(x)
				next = append(next, r.withCur(c))
			}
		}
	case *gripql.GraphStatement_Set:
		val := st.Set.GetValue().AsInterface()
		for _, r := range rows {
			next = append(next, r.setValue(st.Set.GetKey(), func(interface{}) interface{} { return cloneJSON(val) }))
		}
	case *gripql.GraphStatement_Increment:
		inc := float64(st.Increment.GetValue())
		for _, r := range rows {
			next = append(next, r.setValue(st.Increment.GetKey(), func(old interface{}) interface{} {
				f, _ := Num(old)
				return f + inc
			}))
		}
	default:
		return nil, ErrUnmodelled{StepName(gs)}
	}
	return next, nil
}

func (r *Row) cloneMarks() map[string]*Elem {
	m := map[string]*Elem{}
	for k, v := range r.Marks {
		m[k] = v
	}
	return m
}

// setValue implements set()/increment(): the key addresses the current
// element or a mark ($m.k); the addressed element is copied before it is
// changed, so rows never share a counter.
func (r *Row) setValue(key string, f func(old interface{}) interface{}) *Row {
	n := *r
	n.Marks = r.cloneMarks()
	parts := strings.Split(key, ".")
	target := &n.Cur
	if strings.HasPrefix(parts[0], "$") {
		ns := strings.TrimPrefix(parts[0], "$")
		parts = parts[1:]
		if ns != "" {
			e := n.Marks[ns]
			if e == nil {
				return &n
			}
			c := e.Clone()
			n.Marks[ns] = c
			if len(parts) == 1 {
				if c.Data == nil {
					c.Data = map[string]interface{}{}
				}
				c.Data[parts[0]] = f(c.Data[parts[0]])
			}
			return &n
		}
	}
	if *target != nil && len(parts) == 1 {
		c := (*target).Clone()
		if c.Data == nil {
			c.Data = map[string]interface{}{}
		}
		c.Data[parts[0]] = f(c.Data[parts[0]])
		n.Cur = c
	}
	return &n
}

// Expect is what the model predicts for a program.
type Expect struct {
	Type Type
	// Exact, when non-nil, is the sorted canonical multiset the engine must return.
	Exact []string
	// Otherwise the answer is constrained by: exactly N rows, a sub-multiset of
	// Pool, and (if Groups is set) at most one row from each group.
	N      int
	Pool   []string
	Groups map[string]string // canonical row -> distinct-group key
	// Steps that the model considers order-sensitive were present.
	OrderSensitive bool
}

// ErrUnmodelled is returned for programs outside the reference semantics
// (e.g. an order-sensitive step in the middle of a traversal).
type ErrUnmodelled struct{ Why string }

func (e ErrUnmodelled) Error() string { return "unmodelled: " + e.Why }

// Eval interprets a well-typed program over the abstract graph.
func Eval(g *Graph, stmts []*gripql.GraphStatement) (*Expect, error) {
	typ, _, err := TypeCheck(stmts)
	if err != nil {
		return nil, err
	}
	rows := []*Row{{Marks: map[string]*Elem{}}}
	i := 0
	for ; i < len(stmts); i++ {
		gs := stmts[i]
		if isTailStep(gs) {
			break
		}
		next, err := g.Step(gs, rows)
		if err != nil {
			return nil, err
		}
		rows = next
	}
	exp := &Expect{Type: typ}
	canon := make([]string, len(rows))
	for k, r := range rows {
		canon[k] = CanonRow(r, typAt(stmts, i))
	}
	if i == len(stmts) {
		sort.Strings(canon)
		exp.Exact = canon
		return exp, nil
	}
	// tail: [distinct] (limit|skip|range)* [count]
	exp.OrderSensitive = true
	n := len(rows)
	j := i
	if d, ok := stmts[j].GetStatement().(*gripql.GraphStatement_Distinct); ok {
		fields := strList(d.Distinct)
		if len(fields) == 0 {
			fields = []string{"_gid"}
		}
		groups := map[string]string{}
		keys := map[string]bool{}
		var pool []string
		for k, r := range rows {
			var parts []string
			missing := false
			for _, f := range fields {
				v, ok := r.Lookup(f)
				if !ok {
					missing = true
					break
				}
				b, _ := json.Marshal(v)
				parts = append(parts, string(b))
			}
			if missing {
				continue
			}
			key := strings.Join(parts, "\x00")
			keys[key] = true
			if prev, dup := groups[canon[k]]; dup && prev != key {
				// the same canonical row in two groups cannot happen: the key is a function of the row
				return nil, ErrUnmodelled{"distinct key not a function of the row"}
			}
			groups[canon[k]] = key
			pool = append(pool, canon[k])
		}
		exp.Groups = groups
		canon = pool
		n = len(keys)
		j++
	}
	for ; j < len(stmts); j++ {
		switch st := stmts[j].GetStatement().(type) {
		case *gripql.GraphStatement_Limit:
			if int(st.Limit) < n {
				n = int(st.Limit)
			}
		case *gripql.GraphStatement_Skip:
			n -= int(st.Skip)
			if n < 0 {
				n = 0
			}
		case *gripql.GraphStatement_Range:
			a, b := int(st.Range.Start), int(st.Range.Stop)
			if a < 0 {
				return nil, ErrUnmodelled{"negative range start"}
			}
			hi := n
			if b >= 0 && b < hi {
				hi = b
			}
			if b < -1 {
				return nil, ErrUnmodelled{"negative range stop"}
			}
			n = hi - a
			if n < 0 {
				n = 0
			}
		case *gripql.GraphStatement_Count:
			if j != len(stmts)-1 {
				return nil, ErrUnmodelled{"count not last"}
			}
			exp.Exact = []string{fmt.Sprintf(`{"count":%d}`, n)}
			exp.Groups = nil
			return exp, nil
		default:
			return nil, ErrUnmodelled{"order-sensitive step not in tail position"}
		}
	}
	sort.Strings(canon)
	exp.N = n
	exp.Pool = canon
	if exp.Groups == nil && n == len(canon) {
		exp.Exact = canon
	}
	return exp, nil
}

func typAt(stmts []*gripql.GraphStatement, i int) Type {
	t, _, _ := TypeCheck(stmts[:i])
	return t
}

func isTailStep(gs *gripql.GraphStatement) bool {
	switch gs.GetStatement().(type) {
	case *gripql.GraphStatement_Limit, *gripql.GraphStatement_Skip, *gripql.GraphStatement_Range,
		*gripql.GraphStatement_Count, *gripql.GraphStatement_Distinct:
		return true
	}
	return false
}

// selectFields implements fields(): no keys -> no properties; "-k" excludes;
// "k" includes only the named top-level properties that exist.
func selectFields(data map[string]interface{}, keys []string) map[string]interface{} {
	out := map[string]interface{}{}
	var inc, exc []string
	for _, k := range keys {
		if strings.HasPrefix(k, "-") {
			exc = append(exc, strings.TrimPrefix(k, "-"))
		} else {
			inc = append(inc, k)
		}
	}
	if len(inc) > 0 {
		for _, k := range inc {
			if v, ok := data[k]; ok {
				out[k] = v
			}
		}
		return out
	}
	if len(exc) > 0 {
		for k, v := range data {
			if !inList(exc, k) {
				out[k] = v
			}
		}
	}
	return out
}

func elemJSON(e *Elem) map[string]interface{} {
	m := map[string]interface{}{}
	if e == nil {
		return m
	}
	if e.ID != "" {
		m["gid"] = e.ID
	}
	if e.Label != "" {
		m["label"] = e.Label
	}
	if e.Edge {
		if e.From != "" {
			m["from"] = e.From
		}
		if e.To != "" {
			m["to"] = e.To
		}
	}
	if len(e.Data) > 0 {
		m["data"] = e.Data
	}
	return m
}

// CanonRow renders a row exactly as gq.Canon renders the engine's QueryResult.
func CanonRow(r *Row, t Type) string {
	var v interface{}
	switch {
	case r.IsRender:
		v = map[string]interface{}{"render": r.Render}
	case r.IsPath:
		l := make([]interface{}, len(r.Path))
		for i, p := range r.Path {
			if p.Edge != "" {
				l[i] = map[string]interface{}{"edge": p.Edge}
			} else if p.Vertex != "" {
				l[i] = map[string]interface{}{"vertex": p.Vertex}
			} else {
				l[i] = map[string]interface{}{}
			}
		}
		v = map[string]interface{}{"path": l}
	case r.Selection != nil:
		sel := map[string]interface{}{}
		for k, e := range r.Selection {
			if e.Edge {
				sel[k] = map[string]interface{}{"edge": elemJSON(e)}
			} else {
				sel[k] = map[string]interface{}{"vertex": elemJSON(e)}
			}
		}
		v = map[string]interface{}{"selections": map[string]interface{}{"selections": sel}}
	case r.Cur != nil && r.Cur.Edge:
		v = map[string]interface{}{"edge": elemJSON(r.Cur)}
	default:
		v = map[string]interface{}{"vertex": elemJSON(r.Cur)}
	}
	b, err := json.Marshal(v)
	if err != nil {
		return "unmarshalable:" + err.Error()
	}
	return string(b)
}
