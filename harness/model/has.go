// Package model holds the reference models. It imports nothing from the
// engine: only the gripql protobuf types are read where a model interprets a
// request message.
package model

import (
	"math"

	"github.com/bmeg/grip/gripql"
	"regexp"
	"strconv"
)

// JSON values are nil, bool, float64, string, []interface{}, map[string]interface{}.

// DeepEq is JSON deep equality (numbers compare numerically, so -0 == 0).
func DeepEq(a, b interface{}) bool {
	switch x := a.(type) {
	case nil:
		return b == nil
	case bool:
		y, ok := b.(bool)
		return ok && x == y
	case float64:
		y, ok := b.(float64)
		return ok && x == y
	case string:
		y, ok := b.(string)
		return ok && x == y
	case []interface{}:
		y, ok := b.([]interface{})
		if !ok || len(x) != len(y) {
			return false
		}
		for i := range x {
			if !DeepEq(x[i], y[i]) {
				return false
			}
		}
		return true
	case map[string]interface{}:
		y, ok := b.(map[string]interface{})
		if !ok || len(x) != len(y) {
			return false
		}
		for k, v := range x {
			w, ok := y[k]
			if !ok || !DeepEq(v, w) {
				return false
			}
		}
		return true
	}
	return false
}

var jsonNumber = regexp.MustCompile(`^-?(0|[1-9][0-9]*)(\.[0-9]+)?([eE][+-]?[0-9]+)?$`)

// Num returns the numeric reading of a value: a number, or text in the JSON
// number grammar. Everything else (null, booleans, containers, other text)
// is not a number.
func Num(v interface{}) (float64, bool) {
	switch x := v.(type) {
	case float64:
		if math.IsNaN(x) {
			return 0, false
		}
		return x, true
	case string:
		if jsonNumber.MatchString(x) {
			f, err := strconv.ParseFloat(x, 64)
			if err == nil {
				return f, true
			}
		}
	}
	return 0, false
}

func bounds(arg interface{}) (lo, hi float64, ok bool) {
	l, isList := arg.([]interface{})
	if !isList || len(l) != 2 {
		return 0, 0, false
	}
	lo, ok1 := Num(l[0])
	hi, ok2 := Num(l[1])
	return lo, hi, ok1 && ok2
}

// Cond evaluates one documented condition. val is the element value (nil for
// missing or null), arg the condition argument.
func Cond(op string, val, arg interface{}) bool {
	switch op {
	case "EQ":
		return DeepEq(val, arg)
	case "NEQ":
		return !DeepEq(val, arg)
	case "GT", "GTE", "LT", "LTE":
		a, ok1 := Num(val)
		b, ok2 := Num(arg)
		if !ok1 || !ok2 {
			return false
		}
		switch op {
		case "GT":
			return a > b
		case "GTE":
			return a >= b
		case "LT":
			return a < b
		default:
			return a <= b
		}
	case "INSIDE", "OUTSIDE", "BETWEEN":
		lo, hi, ok := bounds(arg)
		v, okv := Num(val)
		if !ok || !okv {
			return false
		}
		switch op {
		case "INSIDE":
			return v > lo && v < hi
		case "OUTSIDE":
			return v < lo || v > hi
		default:
			return v >= lo && v < hi
		}
	case "WITHIN", "WITHOUT":
		found := false
		if l, ok := arg.([]interface{}); ok {
			for _, m := range l {
				if DeepEq(val, m) {
					found = true
				}
			}
		}
		if op == "WITHIN" {
			return found
		}
		return !found
	case "CONTAINS":
		if l, ok := val.([]interface{}); ok {
			for _, m := range l {
				if DeepEq(m, arg) {
					return true
				}
			}
		}
		return false
	}
	return false
}

// EvalHas evaluates a has-expression with ordinary Boolean algebra; lookup
// resolves a key to the element value (nil when missing or null). A nil
// expression or an expression without a body keeps nothing.
func EvalHas(e *gripql.HasExpression, lookup func(key string) interface{}) bool {
	if e == nil {
		return false
	}
	switch x := e.Expression.(type) {
	case *gripql.HasExpression_And:
		for _, s := range x.And.GetExpressions() {
			if !EvalHas(s, lookup) {
				return false
			}
		}
		return true
	case *gripql.HasExpression_Or:
		for _, s := range x.Or.GetExpressions() {
			if EvalHas(s, lookup) {
				return true
			}
		}
		return false
	case *gripql.HasExpression_Not:
		return !EvalHas(x.Not, lookup)
	case *gripql.HasExpression_Condition:
		c := x.Condition
		return Cond(c.GetCondition().String(), lookup(c.GetKey()), c.GetValue().AsInterface())
	}
	return false
}
