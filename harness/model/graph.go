package model

import (
	"encoding/json"
	"fmt"
	"sort"
	"strings"
)

// Elem is a vertex (From == To == "" and !Edge) or an edge.
type Elem struct {
	ID    string                 `json:"id"`
	Label string                 `json:"label"`
	From  string                 `json:"from,omitempty"`
	To    string                 `json:"to,omitempty"`
	Data  map[string]interface{} `json:"data,omitempty"`
	Edge  bool                   `json:"edge,omitempty"`
}

func (e *Elem) Clone() *Elem {
	c := *e
	c.Data = cloneJSON(e.Data).(map[string]interface{})
	return &c
}

func cloneJSON(v interface{}) interface{} {
	switch x := v.(type) {
	case map[string]interface{}:
		if x == nil {
			return map[string]interface{}{}
		}
		m := make(map[string]interface{}, len(x))
		for k, w := range x {
			m[k] = cloneJSON(w)
		}
		return m
	case []interface{}:
		l := make([]interface{}, len(x))
		for i, w := range x {
			l[i] = cloneJSON(w)
		}
		return l
	}
	return v
}

// CloneJSON deep-copies a JSON value.
func CloneJSON(v interface{}) interface{} { return cloneJSON(v) }

// Graph is the abstract graph: last write to an id wins, deleting a vertex
// removes its incident edges, edges may dangle.
type Graph struct {
	V   map[string]*Elem
	E   map[string]*Elem
	Mut int // logical mutation counter ("timestamp changes iff this changes")
	// insertion order bookkeeping is deliberately absent: no order is promised.
}

func NewGraph() *Graph { return &Graph{V: map[string]*Elem{}, E: map[string]*Elem{}} }

type World struct {
	Graphs map[string]*Graph
}

func NewWorld() *World { return &World{Graphs: map[string]*Graph{}} }

const invalidChars = "!@#$%^&*()+={}[] :;\"',.<>?/\\|~"

// ValidName is the documented rule for graph and property names.
func ValidName(k string) bool {
	if strings.ContainsAny(k, invalidChars) {
		return false
	}
	if strings.HasPrefix(k, "_") || strings.HasPrefix(k, "-") {
		return false
	}
	return true
}

var reservedFields = map[string]bool{"_gid": true, "_label": true, "_to": true, "_from": true, "_data": true}

func ValidElem(e *Elem) bool {
	if e.ID == "" || e.Label == "" {
		return false
	}
	if e.Edge && (e.From == "" || e.To == "") {
		return false
	}
	for k := range e.Data {
		if reservedFields[k] || !ValidName(k) {
			return false
		}
	}
	return true
}

// Op is one call of the mutating API.
type Op struct {
	Op    string  `json:"op"` // AddGraph DeleteGraph AddVertex AddEdge BulkAdd DelVertex DelEdge
	Graph string  `json:"graph"`
	Elems []*Elem `json:"elems,omitempty"`
	ID    string  `json:"id,omitempty"`
}

func (o Op) String() string {
	b, _ := json.Marshal(o)
	return string(b)
}

// Outcome of applying an op to the model.
type Outcome struct {
	MustFail bool // the call must return an error and change nothing
	Mutated  bool // a successful mutation happened (timestamp must change)
	MayFail  bool // an error is acceptable (but then nothing may change)
}

// Apply applies the op to the abstract world.
func (w *World) Apply(o Op) Outcome {
	switch o.Op {
	case "AddGraph":
		if !ValidName(o.Graph) || o.Graph == "" {
			return Outcome{MustFail: o.Graph != "", MayFail: true}
		}
		if _, ok := w.Graphs[o.Graph]; ok {
			// creating an existing graph: contents must stay; error optional
			return Outcome{MayFail: true, Mutated: false}
		}
		w.Graphs[o.Graph] = NewGraph()
		return Outcome{Mutated: true}
	case "DeleteGraph":
		if _, ok := w.Graphs[o.Graph]; !ok {
			return Outcome{MayFail: true}
		}
		delete(w.Graphs, o.Graph)
		return Outcome{Mutated: true}
	}
	g, ok := w.Graphs[o.Graph]
	if !ok {
		return Outcome{MustFail: true}
	}
	switch o.Op {
	case "AddVertex", "AddEdge", "BulkAdd":
		anyValid := false
		anyInvalid := false
		for _, e := range o.Elems {
			if !ValidElem(e) {
				anyInvalid = true
				continue
			}
			anyValid = true
			c := e.Clone()
			if c.Edge {
				g.E[c.ID] = c
			} else {
				c.From, c.To = "", ""
				g.V[c.ID] = c
			}
		}
		if anyValid {
			g.Mut++
		}
		return Outcome{MustFail: anyInvalid && !anyValid, MayFail: anyInvalid, Mutated: anyValid}
	case "DelVertex":
		if _, ok := g.V[o.ID]; !ok {
			return Outcome{MayFail: true}
		}
		delete(g.V, o.ID)
		for id, e := range g.E {
			if e.From == o.ID || e.To == o.ID {
				delete(g.E, id)
			}
		}
		g.Mut++
		return Outcome{Mutated: true}
	case "DelEdge":
		if _, ok := g.E[o.ID]; !ok {
			return Outcome{MayFail: true}
		}
		delete(g.E, o.ID)
		g.Mut++
		return Outcome{Mutated: true}
	}
	panic("unknown op " + o.Op)
}

// ---------------------------------------------------------------------------
// Observations. An observation set is a map "question" -> canonical answer.

type Universe struct {
	Graphs  []string
	VIDs    []string
	EIDs    []string
	VLabels []string
	ELabels []string
}

func canonElem(e *Elem, withData bool) string {
	if e == nil {
		return "absent"
	}
	m := map[string]interface{}{"id": e.ID, "label": e.Label}
	if e.Edge {
		m["from"] = e.From
		m["to"] = e.To
	}
	if withData && len(e.Data) > 0 {
		m["data"] = e.Data
	}
	b, _ := json.Marshal(m)
	return string(b)
}

// CanonElem is exported for the engine-side observer so both sides use the
// same rendering.
func CanonElem(e *Elem, withData bool) string { return canonElem(e, withData) }

func joinSorted(l []string) string {
	sort.Strings(l)
	return "[" + strings.Join(l, ",") + "]"
}

// JoinSorted renders a multiset of strings canonically.
func JoinSorted(l []string) string { return joinSorted(l) }

// LabelFilters are the edge-label filters used in adjacency observations.
func (u Universe) LabelFilters() [][]string {
	out := [][]string{nil}
	if len(u.ELabels) > 0 {
		out = append(out, []string{u.ELabels[0]})
	}
	if len(u.ELabels) > 1 {
		out = append(out, []string{u.ELabels[0], u.ELabels[1]})
	}
	return out
}

func matchLabel(filter []string, l string) bool {
	if len(filter) == 0 {
		return true
	}
	for _, f := range filter {
		if f == l {
			return true
		}
	}
	return false
}

// Observe returns everything observable about the abstract world over the
// universe.
func (w *World) Observe(u Universe) map[string]string {
	obs := map[string]string{}
	var names []string
	for n := range w.Graphs {
		names = append(names, n)
	}
	obs["ListGraphs"] = joinSorted(names)
	for _, gn := range u.Graphs {
		g, ok := w.Graphs[gn]
		if !ok {
			obs["Graph("+gn+")"] = "error"
			continue
		}
		obs["Graph("+gn+")"] = "ok"
		g.observeInto(gn, u, obs)
	}
	return obs
}

// ObserveGraph observes one graph under the given name.
func (g *Graph) ObserveGraph(name string, u Universe) map[string]string {
	obs := map[string]string{}
	g.observeInto(name, u, obs)
	return obs
}

func (g *Graph) observeInto(gn string, u Universe, obs map[string]string) {
	p := gn + "."
	for _, id := range u.VIDs {
		obs[p+"GetVertex("+id+",load)"] = canonElem(g.V[id], true)
		obs[p+"GetVertex("+id+",noload)"] = canonElem(g.V[id], false)
	}
	for _, id := range u.EIDs {
		obs[p+"GetEdge("+id+",load)"] = canonElem(g.E[id], true)
		obs[p+"GetEdge("+id+",noload)"] = canonElem(g.E[id], false)
	}
	var vl, el, elNo []string
	vlabels := map[string]bool{}
	elabels := map[string]bool{}
	for _, v := range g.V {
		vl = append(vl, canonElem(v, true))
		vlabels[v.Label] = true
	}
	for _, e := range g.E {
		el = append(el, canonElem(e, true))
		elNo = append(elNo, canonElem(e, false))
		elabels[e.Label] = true
	}
	obs[p+"GetVertexList"] = joinSorted(vl)
	obs[p+"GetEdgeList(load)"] = joinSorted(el)
	obs[p+"GetEdgeList(noload)"] = joinSorted(elNo)
	obs[p+"V()"] = obs[p+"GetVertexList"]
	obs[p+"E()"] = obs[p+"GetEdgeList(load)"]
	var ls []string
	for l := range vlabels {
		ls = append(ls, l)
	}
	obs[p+"ListVertexLabels"] = joinSorted(ls)
	ls = nil
	for l := range elabels {
		ls = append(ls, l)
	}
	obs[p+"ListEdgeLabels"] = joinSorted(ls)
	for _, l := range u.VLabels {
		var ids, rows []string
		for _, v := range g.V {
			if v.Label == l {
				ids = append(ids, v.ID)
				rows = append(rows, canonElem(v, true))
			}
		}
		obs[p+"VertexLabelScan("+l+")"] = joinSorted(ids)
		obs[p+"V().hasLabel("+l+")"] = joinSorted(rows)
	}
	for _, id := range u.VIDs {
		for _, f := range u.LabelFilters() {
			fs := fmt.Sprint(f)
			var out, in, outE, inE, outENo, inENo []string
			for _, e := range g.E {
				if !matchLabel(f, e.Label) {
					continue
				}
				if e.From == id {
					outE = append(outE, canonElem(e, true))
					outENo = append(outENo, canonElem(e, false))
					if t, ok := g.V[e.To]; ok {
						out = append(out, canonElem(t, true))
					}
				}
				if e.To == id {
					inE = append(inE, canonElem(e, true))
					inENo = append(inENo, canonElem(e, false))
					if s, ok := g.V[e.From]; ok {
						in = append(in, canonElem(s, true))
					}
				}
			}
			obs[p+"Out("+id+","+fs+")"] = joinSorted(out)
			obs[p+"In("+id+","+fs+")"] = joinSorted(in)
			obs[p+"OutE("+id+","+fs+",load)"] = joinSorted(outE)
			obs[p+"InE("+id+","+fs+",load)"] = joinSorted(inE)
			obs[p+"OutE("+id+","+fs+",noload)"] = joinSorted(outENo)
			obs[p+"InE("+id+","+fs+",noload)"] = joinSorted(inENo)
			if len(f) == 0 {
				if _, ok := g.V[id]; ok {
					obs[p+"V("+id+").both()"] = joinSorted(append(append([]string{}, in...), out...))
				} else {
					obs[p+"V("+id+").both()"] = "[]"
				}
			}
		}
	}
}

// DiffObs lists the questions whose answers differ.
func DiffObs(got, want map[string]string) []string {
	var d []string
	for k, w := range want {
		if g, ok := got[k]; !ok {
			d = append(d, fmt.Sprintf("%s: missing, expected %s", k, w))
		} else if g != w {
			d = append(d, fmt.Sprintf("%s: got %s, expected %s", k, g, w))
		}
	}
	for k, g := range got {
		if _, ok := want[k]; !ok {
			d = append(d, fmt.Sprintf("%s: unexpected %s", k, g))
		}
	}
	sort.Strings(d)
	return d
}

// DiffKeys returns just the question names (with the graph prefix removed)
// that differ, for finding keys.
func DiffKeys(d []string) []string {
	seen := map[string]bool{}
	var out []string
	for _, l := range d {
		q := l
		if i := strings.Index(q, ":"); i > 0 {
			q = q[:i]
		}
		if i := strings.Index(q, "."); i > 0 {
			q = q[i+1:]
		}
		if i := strings.Index(q, "("); i > 0 {
			q = q[:i]
		}
		if !seen[q] {
			seen[q] = true
			out = append(out, q)
		}
	}
	sort.Strings(out)
	return out
}
