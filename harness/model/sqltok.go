package model

import (
	"strings"
	"unicode"
)

// SQLToken is one lexical token of a PostgreSQL statement.
type SQLToken struct {
	Kind string // word num str qid param op comment unterminated
	Text string // verbatim text; for str/qid the decoded content
}

// SQLTokens tokenizes with PostgreSQL's lexical rules: '...' literals with ”
// as escape (standard_conforming_strings on: a backslash is an ordinary
// character), E'...' with backslash escapes, "..." quoted identifiers with ""
// escape, $n parameters, $tag$...$tag$ dollar quoting, -- and nested /* */
// comments, numbers, words, single-character operators.
func SQLTokens(s string) []SQLToken {
	var out []SQLToken
	r := []rune(s)
	i := 0
	for i < len(r) {
		c := r[i]
		switch {
		case unicode.IsSpace(c):
			i++
		case c == '-' && i+1 < len(r) && r[i+1] == '-':
			j := i
			for j < len(r) && r[j] != '\n' {
				j++
			}
			out = append(out, SQLToken{"comment", string(r[i:j])})
			i = j
		case c == '/' && i+1 < len(r) && r[i+1] == '*':
			depth, j := 1, i+2
			for j < len(r) && depth > 0 {
				if r[j] == '/' && j+1 < len(r) && r[j+1] == '*' {
					depth++
					j += 2
				} else if r[j] == '*' && j+1 < len(r) && r[j+1] == '/' {
					depth--
					j += 2
				} else {
					j++
				}
			}
			kind := "comment"
			if depth > 0 {
				kind = "unterminated"
			}
			out = append(out, SQLToken{kind, string(r[i:j])})
			i = j
		case c == '\'' || ((c == 'E' || c == 'e') && i+1 < len(r) && r[i+1] == '\''):
			esc := c != '\''
			j := i + 1
			if esc {
				j++
			}
			var sb strings.Builder
			closed := false
			for j < len(r) {
				if r[j] == '\'' {
					if j+1 < len(r) && r[j+1] == '\'' {
						sb.WriteRune('\'')
						j += 2
						continue
					}
					closed = true
					j++
					break
				}
				if esc && r[j] == '\\' && j+1 < len(r) {
					sb.WriteRune(r[j+1])
					j += 2
					continue
				}
				sb.WriteRune(r[j])
				j++
			}
			if !closed {
				out = append(out, SQLToken{"unterminated", string(r[i:j])})
			} else {
				out = append(out, SQLToken{"str", sb.String()})
			}
			i = j
		case c == '"':
			j := i + 1
			var sb strings.Builder
			closed := false
			for j < len(r) {
				if r[j] == '"' {
					if j+1 < len(r) && r[j+1] == '"' {
						sb.WriteRune('"')
						j += 2
						continue
					}
					closed = true
					j++
					break
				}
				sb.WriteRune(r[j])
				j++
			}
			if !closed {
				out = append(out, SQLToken{"unterminated", string(r[i:j])})
			} else {
				out = append(out, SQLToken{"qid", sb.String()})
			}
			i = j
		case c == '$':
			j := i + 1
			for j < len(r) && unicode.IsDigit(r[j]) {
				j++
			}
			if j > i+1 {
				out = append(out, SQLToken{"param", string(r[i:j])})
				i = j
				break
			}
			// dollar quoting $tag$
			k := i + 1
			for k < len(r) && (unicode.IsLetter(r[k]) || r[k] == '_' || (k > i+1 && unicode.IsDigit(r[k]))) {
				k++
			}
			if k < len(r) && r[k] == '$' {
				tag := string(r[i : k+1])
				rest := string(r[k+1:])
				end := strings.Index(rest, tag)
				if end < 0 {
					out = append(out, SQLToken{"unterminated", string(r[i:])})
					i = len(r)
				} else {
					body := rest[:end]
					out = append(out, SQLToken{"str", body})
					i = k + 1 + len([]rune(body)) + len([]rune(tag))
				}
				break
			}
			out = append(out, SQLToken{"op", "$"})
			i++
		case unicode.IsDigit(c):
			j := i
			for j < len(r) && (unicode.IsDigit(r[j]) || r[j] == '.' || r[j] == 'e' || r[j] == 'E') {
				j++
			}
			out = append(out, SQLToken{"num", string(r[i:j])})
			i = j
		case unicode.IsLetter(c) || c == '_':
			j := i
			for j < len(r) && (unicode.IsLetter(r[j]) || unicode.IsDigit(r[j]) || r[j] == '_' || r[j] == '$') {
				j++
			}
			out = append(out, SQLToken{"word", strings.ToLower(string(r[i:j]))})
			i = j
		default:
			out = append(out, SQLToken{"op", string(c)})
			i++
		}
	}
	return out
}

// SQLSkeleton is the token structure with literals and parameters replaced by
// placeholders; it also returns the decoded literals in order.
func SQLSkeleton(s string) (skeleton string, literals []string) {
	var parts []string
	for _, t := range SQLTokens(s) {
		switch t.Kind {
		case "str":
			parts = append(parts, "STR")
			literals = append(literals, t.Text)
		case "param":
			parts = append(parts, "PARAM")
		case "comment":
			parts = append(parts, "COMMENT")
		case "unterminated":
			parts = append(parts, "UNTERMINATED")
		case "num":
			parts = append(parts, "NUM")
		case "qid":
			parts = append(parts, "\""+t.Text+"\"")
		default:
			parts = append(parts, t.Text)
		}
	}
	return strings.Join(parts, " "), literals
}
