// Package gq holds helpers for driving bmeg/grip from the harness: opening
// stores, (de)serialising statements, running pipelines, canonical rows.
package gq

import (
	"context"
	"encoding/json"
	"fmt"
	"os"
	"sort"

	"github.com/bmeg/grip/engine/pipeline"
	"github.com/bmeg/grip/gdbi"
	"github.com/bmeg/grip/gripql"
	"github.com/bmeg/grip/kvgraph"
	_ "github.com/bmeg/grip/kvi/badgerdb"
	"github.com/bmeg/grip/log"
	"google.golang.org/protobuf/encoding/protojson"
	"google.golang.org/protobuf/types/known/structpb"
)

// Silence turns bmeg/grip's logging down to errors only.
func Silence() {
	log.ConfigureLogger(log.Logger{Level: "error", Formatter: "text"})
	if os.Getenv("VERIF_LOG") == "" {
		log.ConfigureLogger(log.Logger{Level: "panic", Formatter: "text"})
	}
}

func OpenBadger(dir string) (gdbi.GraphDB, error) {
	return kvgraph.NewKVGraphDB("badger", dir)
}

// StmtJSON renders statements in protojson (the case-file representation).
func StmtJSON(stmts []*gripql.GraphStatement) []json.RawMessage {
	out := make([]json.RawMessage, len(stmts))
	for i, s := range stmts {
		b, err := protojson.Marshal(s)
		if err != nil {
			panic(err)
		}
		out[i] = b
	}
	return out
}

func StmtsFromJSON(raw []json.RawMessage) []*gripql.GraphStatement {
	out := make([]*gripql.GraphStatement, len(raw))
	for i, r := range raw {
		s := &gripql.GraphStatement{}
		if err := protojson.Unmarshal(r, s); err != nil {
			panic(fmt.Sprintf("bad statement %s: %v", r, err))
		}
		out[i] = s
	}
	return out
}

func QueryString(stmts []*gripql.GraphStatement) string {
	return (&gripql.Query{Statements: stmts}).String()
}

// Rows is the outcome of compile+run.
type Rows struct {
	CompileErr string
	Rows       []*gripql.QueryResult
}

// Run compiles with the given compiler and drains the pipeline.
func Run(ctx context.Context, comp gdbi.Compiler, stmts []*gripql.GraphStatement, workdir string) Rows {
	pipe, err := comp.Compile(stmts, nil)
	if err != nil {
		return Rows{CompileErr: err.Error()}
	}
	var out []*gripql.QueryResult
	for r := range pipeline.Run(ctx, pipe, workdir) {
		out = append(out, r)
	}
	return Rows{Rows: out}
}

// Canon renders one result row canonically: protojson -> generic JSON ->
// json.Marshal (sorted keys). Absent data and {} are the same.
func Canon(r *gripql.QueryResult) string {
	if r == nil {
		return "null-row"
	}
	b, err := protojson.Marshal(r)
	if err != nil {
		return "unmarshalable:" + err.Error()
	}
	var v interface{}
	json.Unmarshal(b, &v)
	v = normalize(v)
	c, _ := json.Marshal(v)
	return string(c)
}

func normalize(v interface{}) interface{} {
	switch x := v.(type) {
	case map[string]interface{}:
		for k, w := range x {
			x[k] = normalize(w)
			if k == "data" {
				if m, ok := x[k].(map[string]interface{}); ok && len(m) == 0 {
					delete(x, k)
				}
			}
		}
		return x
	case []interface{}:
		for i := range x {
			x[i] = normalize(x[i])
		}
		return x
	}
	return v
}

func CanonRows(rows []*gripql.QueryResult) []string {
	out := make([]string, len(rows))
	for i, r := range rows {
		out[i] = Canon(r)
	}
	sort.Strings(out)
	return out
}

// SameMultiset compares two sorted canonical row lists.
func SameMultiset(a, b []string) bool {
	if len(a) != len(b) {
		return false
	}
	for i := range a {
		if a[i] != b[i] {
			return false
		}
	}
	return true
}

// SubMultiset reports whether sorted a is a sub-multiset of sorted b.
func SubMultiset(a, b []string) bool {
	j := 0
	for _, x := range a {
		for j < len(b) && b[j] < x {
			j++
		}
		if j >= len(b) || b[j] != x {
			return false
		}
		j++
	}
	return true
}

func Struct(m map[string]interface{}) *structpb.Struct {
	s, err := structpb.NewStruct(m)
	if err != nil {
		panic(err)
	}
	return s
}

func Value(v interface{}) *structpb.Value {
	s, err := structpb.NewValue(v)
	if err != nil {
		panic(err)
	}
	return s
}

// Trunc shortens long strings for messages.
func Trunc(s string, n int) string {
	if len(s) > n {
		return s[:n] + "…"
	}
	return s
}
