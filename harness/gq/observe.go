package gq

import (
	"context"
	"fmt"
	"sort"

	"github.com/bmeg/grip/gdbi"
	"github.com/bmeg/grip/gripql"

	"verifharness/model"
)

func ToModelElem(e *gdbi.DataElement, edge bool) *model.Elem {
	if e == nil {
		return nil
	}
	return &model.Elem{ID: e.ID, Label: e.Label, From: e.From, To: e.To, Data: e.Data, Edge: edge}
}

func FromModelElem(e *model.Elem) *gdbi.DataElement {
	return &gdbi.DataElement{ID: e.ID, Label: e.Label, From: e.From, To: e.To, Data: model.CloneJSON(e.Data).(map[string]interface{}), Loaded: true}
}

func canonDE(e *gdbi.DataElement, edge, withData bool) string {
	return model.CanonElem(ToModelElem(e, edge), withData)
}

func pbVertex(v *gripql.Vertex) *model.Elem {
	if v == nil {
		return nil
	}
	return &model.Elem{ID: v.Gid, Label: v.Label, Data: v.Data.AsMap()}
}

func pbEdge(e *gripql.Edge) *model.Elem {
	if e == nil {
		return nil
	}
	return &model.Elem{ID: e.Gid, Label: e.Label, From: e.From, To: e.To, Data: e.Data.AsMap(), Edge: true}
}

// ObserveDB takes the whole observation set of DESIGN.md C03 through the
// public gdbi interfaces.
func ObserveDB(db gdbi.GraphDB, u model.Universe, workdir string) map[string]string {
	obs := map[string]string{}
	obs["ListGraphs"] = model.JoinSorted(append([]string{}, db.ListGraphs()...))
	for _, gn := range u.Graphs {
		gi, err := db.Graph(gn)
		if err != nil {
			obs["Graph("+gn+")"] = "error"
			continue
		}
		obs["Graph("+gn+")"] = "ok"
		ObserveGraphInto(gi, gn, u, workdir, obs)
	}
	return obs
}

func lookupChan(ids ...string) chan gdbi.ElementLookup {
	ch := make(chan gdbi.ElementLookup, len(ids)+1)
	for _, id := range ids {
		ch <- gdbi.ElementLookup{ID: id, Ref: &gdbi.BaseTraveler{}}
	}
	close(ch)
	return ch
}

// ObserveGraphInto observes one graph under the name gn.
func ObserveGraphInto(gi gdbi.GraphInterface, gn string, u model.Universe, workdir string, obs map[string]string) {
	ctx := context.Background()
	p := gn + "."
	for _, id := range u.VIDs {
		obs[p+"GetVertex("+id+",load)"] = canonDE(gi.GetVertex(id, true), false, true)
		obs[p+"GetVertex("+id+",noload)"] = canonDE(gi.GetVertex(id, false), false, false)
	}
	for _, id := range u.EIDs {
		obs[p+"GetEdge("+id+",load)"] = canonDE(gi.GetEdge(id, true), true, true)
		obs[p+"GetEdge("+id+",noload)"] = canonDE(gi.GetEdge(id, false), true, false)
	}
	var vl, el, elNo []string
	for v := range gi.GetVertexList(ctx, true) {
		vl = append(vl, canonDE(v, false, true))
	}
	for e := range gi.GetEdgeList(ctx, true) {
		el = append(el, canonDE(e, true, true))
	}
	for e := range gi.GetEdgeList(ctx, false) {
		elNo = append(elNo, canonDE(e, true, false))
	}
	obs[p+"GetVertexList"] = model.JoinSorted(vl)
	obs[p+"GetEdgeList(load)"] = model.JoinSorted(el)
	obs[p+"GetEdgeList(noload)"] = model.JoinSorted(elNo)
	vlab, err := gi.ListVertexLabels()
	if err != nil {
		obs[p+"ListVertexLabels"] = "error:" + err.Error()
	} else {
		obs[p+"ListVertexLabels"] = model.JoinSorted(append([]string{}, vlab...))
	}
	elab, err := gi.ListEdgeLabels()
	if err != nil {
		obs[p+"ListEdgeLabels"] = "error:" + err.Error()
	} else {
		obs[p+"ListEdgeLabels"] = model.JoinSorted(append([]string{}, elab...))
	}
	comp := gi.Compiler()
	trav := func(q *gripql.Query) string {
		r := Run(ctx, comp, q.Statements, workdir)
		if r.CompileErr != "" {
			return "compile-error:" + r.CompileErr
		}
		var rows []string
		for _, row := range r.Rows {
			switch {
			case row.GetVertex() != nil:
				rows = append(rows, model.CanonElem(pbVertex(row.GetVertex()), true))
			case row.GetEdge() != nil:
				rows = append(rows, model.CanonElem(pbEdge(row.GetEdge()), true))
			default:
				rows = append(rows, Canon(row))
			}
		}
		return model.JoinSorted(rows)
	}
	obs[p+"V()"] = trav(gripql.V())
	obs[p+"E()"] = trav(gripql.E())
	for _, l := range u.VLabels {
		var ids []string
		for id := range gi.VertexLabelScan(ctx, l) {
			ids = append(ids, id)
		}
		obs[p+"VertexLabelScan("+l+")"] = model.JoinSorted(ids)
		obs[p+"V().hasLabel("+l+")"] = trav(gripql.V().HasLabel(l))
	}
	for _, id := range u.VIDs {
		for _, f := range u.LabelFilters() {
			fs := fmt.Sprint(f)
			var out, in, outE, inE, outENo, inENo []string
			for r := range gi.GetOutChannel(ctx, lookupChan(id), true, false, f) {
				out = append(out, canonDE(r.Vertex, false, true))
			}
			for r := range gi.GetInChannel(ctx, lookupChan(id), true, false, f) {
				in = append(in, canonDE(r.Vertex, false, true))
			}
			for r := range gi.GetOutEdgeChannel(ctx, lookupChan(id), true, false, f) {
				outE = append(outE, canonDE(r.Edge, true, true))
			}
			for r := range gi.GetInEdgeChannel(ctx, lookupChan(id), true, false, f) {
				inE = append(inE, canonDE(r.Edge, true, true))
			}
			for r := range gi.GetOutEdgeChannel(ctx, lookupChan(id), false, false, f) {
				outENo = append(outENo, canonDE(r.Edge, true, false))
			}
			for r := range gi.GetInEdgeChannel(ctx, lookupChan(id), false, false, f) {
				inENo = append(inENo, canonDE(r.Edge, true, false))
			}
			obs[p+"Out("+id+","+fs+")"] = model.JoinSorted(out)
			obs[p+"In("+id+","+fs+")"] = model.JoinSorted(in)
			obs[p+"OutE("+id+","+fs+",load)"] = model.JoinSorted(outE)
			obs[p+"InE("+id+","+fs+",load)"] = model.JoinSorted(inE)
			obs[p+"OutE("+id+","+fs+",noload)"] = model.JoinSorted(outENo)
			obs[p+"InE("+id+","+fs+",noload)"] = model.JoinSorted(inENo)
			if len(f) == 0 {
				obs[p+"V("+id+").both()"] = trav(gripql.V(id).Both())
			}
		}
	}
}

// ApplyOp performs one model.Op on a gdbi.GraphDB; it returns the error text
// ("" for success).
func ApplyOp(db gdbi.GraphDB, o model.Op) string {
	switch o.Op {
	case "AddGraph":
		return errStr(db.AddGraph(o.Graph))
	case "DeleteGraph":
		return errStr(db.DeleteGraph(o.Graph))
	}
	gi, err := db.Graph(o.Graph)
	if err != nil {
		return err.Error()
	}
	switch o.Op {
	case "AddVertex":
		var vs []*gdbi.Vertex
		for _, e := range o.Elems {
			vs = append(vs, FromModelElem(e))
		}
		return errStr(gi.AddVertex(vs))
	case "AddEdge":
		var es []*gdbi.Edge
		for _, e := range o.Elems {
			es = append(es, FromModelElem(e))
		}
		return errStr(gi.AddEdge(es))
	case "BulkAdd":
		ch := make(chan *gdbi.GraphElement, len(o.Elems)+1)
		for _, e := range o.Elems {
			if e.Edge {
				ch <- &gdbi.GraphElement{Edge: FromModelElem(e), Graph: o.Graph}
			} else {
				ch <- &gdbi.GraphElement{Vertex: FromModelElem(e), Graph: o.Graph}
			}
		}
		close(ch)
		return errStr(gi.BulkAdd(ch))
	case "DelVertex":
		return errStr(gi.DelVertex(o.ID))
	case "DelEdge":
		return errStr(gi.DelEdge(o.ID))
	}
	panic("unknown op " + o.Op)
}

func errStr(err error) string {
	if err == nil {
		return ""
	}
	s := err.Error()
	if s == "" {
		s = "error"
	}
	return s
}

// Timestamps reads the timestamp of every universe graph that exists.
func Timestamps(db gdbi.GraphDB, u model.Universe) map[string]string {
	out := map[string]string{}
	existing := map[string]bool{}
	for _, g := range db.ListGraphs() {
		existing[g] = true
	}
	for _, gn := range u.Graphs {
		if existing[gn] {
			if gi, err := db.Graph(gn); err == nil {
				out[gn] = gi.GetTimestamp()
			}
		}
	}
	return out
}

func SortedKeys(m map[string]string) []string {
	var k []string
	for x := range m {
		k = append(k, x)
	}
	sort.Strings(k)
	return k
}
