package gq

import (
	"context"
	"fmt"
	"io"

	"github.com/bmeg/grip/gripql"
	"google.golang.org/grpc"
	"google.golang.org/grpc/codes"
	"google.golang.org/grpc/status"
	"google.golang.org/protobuf/encoding/protojson"
	"google.golang.org/protobuf/proto"
	"google.golang.org/protobuf/reflect/protoreflect"
	"google.golang.org/protobuf/reflect/protoregistry"
)

// Method describes one RPC found by reflection over the gripql services.
type Method struct {
	Service         string // Query, Job, Edit, Configure
	Name            string
	Full            string // /gripql.Query/Traversal
	Input           protoreflect.MessageDescriptor
	Output          protoreflect.MessageDescriptor
	ClientStreaming bool
	ServerStreaming bool
}

// Methods enumerates every method of every service in gripql.proto.
func Methods() []Method {
	var out []Method
	svcs := gripql.File_gripql_proto.Services()
	for i := 0; i < svcs.Len(); i++ {
		sd := svcs.Get(i)
		ms := sd.Methods()
		for j := 0; j < ms.Len(); j++ {
			md := ms.Get(j)
			out = append(out, Method{
				Service: string(sd.Name()), Name: string(md.Name()),
				Full:  fmt.Sprintf("/%s/%s", sd.FullName(), md.Name()),
				Input: md.Input(), Output: md.Output(),
				ClientStreaming: md.IsStreamingClient(), ServerStreaming: md.IsStreamingServer(),
			})
		}
	}
	return out
}

func NewMessage(d protoreflect.MessageDescriptor) proto.Message {
	mt, err := protoregistry.GlobalTypes.FindMessageByName(d.FullName())
	if err != nil {
		panic(err)
	}
	return mt.New().Interface()
}

// Reply is the outcome of one RPC as seen by the client.
type Reply struct {
	Code     codes.Code
	Err      string
	Messages []string // protojson of the response message(s)
}

func (r Reply) OK() bool { return r.Code == codes.OK }

func replyErr(err error) Reply {
	if err == nil {
		return Reply{}
	}
	return Reply{Code: status.Code(err), Err: err.Error()}
}

// Invoke calls any method generically. reqs are protojson request messages
// (exactly one unless the method is client-streaming).
func Invoke(ctx context.Context, conn *grpc.ClientConn, m Method, reqs []string) Reply {
	var in []proto.Message
	for _, r := range reqs {
		msg := NewMessage(m.Input)
		if err := protojson.Unmarshal([]byte(r), msg); err != nil {
			return Reply{Code: codes.InvalidArgument, Err: "harness: bad request json: " + err.Error()}
		}
		in = append(in, msg)
	}
	return InvokeMsgs(ctx, conn, m, in)
}

func InvokeMsgs(ctx context.Context, conn *grpc.ClientConn, m Method, in []proto.Message) Reply {
	if !m.ClientStreaming && !m.ServerStreaming {
		out := NewMessage(m.Output)
		if err := conn.Invoke(ctx, m.Full, in[0], out); err != nil {
			return replyErr(err)
		}
		b, _ := protojson.Marshal(out)
		return Reply{Messages: []string{string(b)}}
	}
	desc := &grpc.StreamDesc{StreamName: m.Name, ServerStreams: m.ServerStreaming, ClientStreams: m.ClientStreaming}
	st, err := conn.NewStream(ctx, desc, m.Full)
	if err != nil {
		return replyErr(err)
	}
	for _, msg := range in {
		if err := st.SendMsg(msg); err != nil {
			if err == io.EOF {
				break
			}
			return replyErr(err)
		}
	}
	if err := st.CloseSend(); err != nil {
		return replyErr(err)
	}
	var rep Reply
	for {
		out := NewMessage(m.Output)
		err := st.RecvMsg(out)
		if err == io.EOF {
			break
		}
		if err != nil {
			r := replyErr(err)
			r.Messages = rep.Messages
			return r
		}
		b, _ := protojson.Marshal(out)
		rep.Messages = append(rep.Messages, string(b))
		if !m.ServerStreaming {
			break
		}
	}
	return rep
}

// MethodByName finds "Service/Name".
func MethodByName(service, name string) Method {
	for _, m := range Methods() {
		if m.Service == service && m.Name == name {
			return m
		}
	}
	panic("no method " + service + "/" + name)
}
