package gq

import (
	"context"
	"fmt"
	"sort"

	"github.com/bmeg/grip/gdbi"

	"verifharness/model"
)

// GraphSnap is a structural snapshot of one graph through the public
// gdbi.GraphInterface, used for crash-consistency invariants.
type GraphSnap struct {
	V         map[string]*model.Elem
	E         map[string]*model.Elem
	VDup      []string            // ids listed more than once
	EDup      []string
	OutE      map[string][]*model.Elem // vertex id -> incident edges as the adjacency index reports them
	InE       map[string][]*model.Elem
	LabelScan map[string][]string // vertex label -> ids from the label index
	VLabels   []string
	ELabels   []string
}

type Snap struct {
	Graphs map[string]*GraphSnap
	List   []string
}

func SnapshotDB(db gdbi.GraphDB, u model.Universe) *Snap {
	s := &Snap{Graphs: map[string]*GraphSnap{}}
	s.List = append(s.List, db.ListGraphs()...)
	sort.Strings(s.List)
	for _, gn := range s.List {
		gi, err := db.Graph(gn)
		if err != nil {
			continue
		}
		s.Graphs[gn] = SnapshotGraph(gi, u)
	}
	return s
}

func SnapshotGraph(gi gdbi.GraphInterface, u model.Universe) *GraphSnap {
	ctx := context.Background()
	g := &GraphSnap{V: map[string]*model.Elem{}, E: map[string]*model.Elem{}, OutE: map[string][]*model.Elem{}, InE: map[string][]*model.Elem{}, LabelScan: map[string][]string{}}
	for v := range gi.GetVertexList(ctx, true) {
		if _, dup := g.V[v.ID]; dup {
			g.VDup = append(g.VDup, v.ID)
		}
		g.V[v.ID] = ToModelElem(v, false)
	}
	for e := range gi.GetEdgeList(ctx, true) {
		if _, dup := g.E[e.ID]; dup {
			g.EDup = append(g.EDup, e.ID)
		}
		g.E[e.ID] = ToModelElem(e, true)
	}
	ids := map[string]bool{}
	for _, id := range u.VIDs {
		ids[id] = true
	}
	for id := range g.V {
		ids[id] = true
	}
	for _, e := range g.E {
		ids[e.From] = true
		ids[e.To] = true
	}
	for id := range ids {
		for r := range gi.GetOutEdgeChannel(ctx, lookupChan(id), false, false, nil) {
			g.OutE[id] = append(g.OutE[id], ToModelElem(r.Edge, true))
		}
		for r := range gi.GetInEdgeChannel(ctx, lookupChan(id), false, false, nil) {
			g.InE[id] = append(g.InE[id], ToModelElem(r.Edge, true))
		}
	}
	g.VLabels, _ = gi.ListVertexLabels()
	g.ELabels, _ = gi.ListEdgeLabels()
	labels := map[string]bool{}
	for _, l := range u.VLabels {
		labels[l] = true
	}
	for _, l := range g.VLabels {
		labels[l] = true
	}
	for _, v := range g.V {
		labels[v.Label] = true
	}
	for l := range labels {
		for id := range gi.VertexLabelScan(ctx, l) {
			g.LabelScan[l] = append(g.LabelScan[l], id)
		}
	}
	return g
}

func hasStr(l []string, s string) bool {
	for _, x := range l {
		if x == s {
			return true
		}
	}
	return false
}

func sameEdge(a, b *model.Elem) bool {
	return a != nil && b != nil && a.ID == b.ID && a.From == b.From && a.To == b.To && a.Label == b.Label
}

// Invariants checks I1-I3 of DESIGN.md C04 on a snapshot: every adjacency or
// label-index entry refers to an existing element, and every existing element
// is reachable through its indexes.
func (g *GraphSnap) Invariants(name string) []string {
	var bad []string
	if len(g.VDup) > 0 || len(g.EDup) > 0 {
		bad = append(bad, fmt.Sprintf("%s: I0 elements listed twice: vertices %v edges %v", name, g.VDup, g.EDup))
	}
	for vid, es := range g.OutE {
		for _, e := range es {
			rec := g.E[e.ID]
			if !sameEdge(rec, e) || e.From != vid {
				bad = append(bad, fmt.Sprintf("%s: I1 out-adjacency entry of %s names edge %s (%s->%s:%s) but the edge record is %v", name, vid, e.ID, e.From, e.To, e.Label, rec))
				continue
			}
			twin := false
			for _, x := range g.InE[e.To] {
				if sameEdge(x, e) {
					twin = true
				}
			}
			if !twin {
				bad = append(bad, fmt.Sprintf("%s: I1 edge %s is in the out-adjacency of %s but not in the in-adjacency of %s", name, e.ID, vid, e.To))
			}
		}
	}
	for vid, es := range g.InE {
		for _, e := range es {
			rec := g.E[e.ID]
			if !sameEdge(rec, e) || e.To != vid {
				bad = append(bad, fmt.Sprintf("%s: I1 in-adjacency entry of %s names edge %s (%s->%s:%s) but the edge record is %v", name, vid, e.ID, e.From, e.To, e.Label, rec))
			}
		}
	}
	for l, ids := range g.LabelScan {
		for _, id := range ids {
			if v, ok := g.V[id]; !ok || v.Label != l {
				bad = append(bad, fmt.Sprintf("%s: I2 label index lists %s under label %s but the vertex is %v", name, id, l, v))
			}
		}
	}
	vl, el := map[string]bool{}, map[string]bool{}
	for _, v := range g.V {
		vl[v.Label] = true
	}
	for _, e := range g.E {
		el[e.Label] = true
	}
	for _, l := range g.VLabels {
		if !vl[l] {
			bad = append(bad, fmt.Sprintf("%s: I2 vertex label %s is listed but no vertex has it", name, l))
		}
	}
	for _, l := range g.ELabels {
		if !el[l] {
			bad = append(bad, fmt.Sprintf("%s: I2 edge label %s is listed but no edge has it", name, l))
		}
	}
	for id, v := range g.V {
		if !hasStr(g.LabelScan[v.Label], id) {
			bad = append(bad, fmt.Sprintf("%s: I3 vertex %s (label %s) is missing from the label index", name, id, v.Label))
		}
		if !hasStr(g.VLabels, v.Label) {
			bad = append(bad, fmt.Sprintf("%s: I3 label %s of vertex %s is not listed", name, v.Label, id))
		}
	}
	for id, e := range g.E {
		o, i := false, false
		for _, x := range g.OutE[e.From] {
			if sameEdge(x, e) {
				o = true
			}
		}
		for _, x := range g.InE[e.To] {
			if sameEdge(x, e) {
				i = true
			}
		}
		if !o || !i {
			bad = append(bad, fmt.Sprintf("%s: I3 edge %s (%s->%s) is missing from the adjacency index (out=%v in=%v)", name, id, e.From, e.To, o, i))
		}
		if !hasStr(g.ELabels, e.Label) {
			bad = append(bad, fmt.Sprintf("%s: I3 label %s of edge %s is not listed", name, e.Label, id))
		}
	}
	sort.Strings(bad)
	return bad
}
