package gq

import (
	"context"
	"fmt"
	"net"
	"path/filepath"
	"time"

	"github.com/bmeg/grip/accounts"
	"github.com/bmeg/grip/config"
	"github.com/bmeg/grip/gdbi"
	"github.com/bmeg/grip/gripql"
	"github.com/bmeg/grip/kvgraph"
	"github.com/bmeg/grip/server"
	"github.com/bmeg/grip/util/rpc"
	"google.golang.org/grpc"
)

// LiveServer is a real GripServer on loopback inside the worker process.
type LiveServer struct {
	Conf    *config.Config
	DB      gdbi.GraphDB
	Conn    *grpc.ClientConn
	Q       gripql.QueryClient
	E       gripql.EditClient
	J       gripql.JobClient
	C       gripql.ConfigureClient
	RPCAddr string
	HTTP    string
	Dir     string
	cancel  context.CancelFunc
	done    chan error
}

func freePort() string {
	l, err := net.Listen("tcp", "127.0.0.1:0")
	if err != nil {
		panic(err)
	}
	defer l.Close()
	return fmt.Sprint(l.Addr().(*net.TCPAddr).Port)
}

type ServerOpts struct {
	Accounts *accounts.Config
	Driver   string // badger (default) bolt level pebble
	DBDir    string // reuse an existing database directory
	User     string // client credentials
	Password string
	NoJobs   bool
}

// StartServer starts a GripServer over a kvgraph store in dir.
func StartServer(dir string, o ServerOpts) (*LiveServer, error) {
	var lastErr error
	for attempt := 0; attempt < 5; attempt++ {
		ls, err := startServerOnce(dir, o)
		if err == nil {
			return ls, nil
		}
		lastErr = err
	}
	return nil, lastErr
}

func startServerOnce(dir string, o ServerOpts) (*LiveServer, error) {
	conf := config.DefaultConfig()
	conf.Server.RPCPort = freePort()
	conf.Server.HTTPPort = freePort()
	conf.Server.WorkDir = filepath.Join(dir, "work")
	conf.Server.NoJobs = o.NoJobs
	conf.RPCClient.ServerAddress = conf.Server.RPCAddress()
	if o.Accounts != nil {
		conf.Server.Accounts = *o.Accounts
	}
	driver := o.Driver
	if driver == "" {
		driver = "badger"
	}
	dbdir := o.DBDir
	if dbdir == "" {
		dbdir = filepath.Join(dir, "db")
	}
	db, err := kvgraph.NewKVGraphDB(driver, dbdir)
	if err != nil {
		return nil, err
	}
	conf.Default = driver
	srv, err := server.NewGripServer(conf, dir, map[string]gdbi.GraphDB{driver: db})
	if err != nil {
		db.Close()
		return nil, err
	}
	ctx, cancel := context.WithCancel(context.Background())
	ls := &LiveServer{Conf: conf, DB: db, Dir: dir, cancel: cancel, done: make(chan error, 1),
		RPCAddr: conf.Server.RPCAddress(), HTTP: "http://localhost:" + conf.Server.HTTPPort}
	go func() { ls.done <- srv.Serve(ctx) }()
	deadline := time.Now().Add(20 * time.Second)
	for {
		select {
		case err := <-ls.done:
			cancel()
			return nil, fmt.Errorf("server exited: %v", err)
		default:
		}
		c, err := net.DialTimeout("tcp", "127.0.0.1:"+conf.Server.RPCPort, time.Second)
		if err == nil {
			c.Close()
			break
		}
		if time.Now().After(deadline) {
			cancel()
			return nil, fmt.Errorf("server did not come up: %v", err)
		}
		time.Sleep(10 * time.Millisecond)
	}
	conn, err := ls.Dial(o.User, o.Password)
	if err != nil {
		cancel()
		return nil, err
	}
	ls.Conn = conn
	ls.Q, ls.E, ls.J, ls.C = gripql.NewQueryClient(conn), gripql.NewEditClient(conn), gripql.NewJobClient(conn), gripql.NewConfigureClient(conn)
	// the graph map and job storage are set up inside Serve: wait until a call answers
	for i := 0; i < 500; i++ {
		if _, err := ls.Q.ListGraphs(context.Background(), &gripql.Empty{}); err == nil || o.Accounts != nil {
			break
		}
		time.Sleep(10 * time.Millisecond)
	}
	time.Sleep(50 * time.Millisecond)
	return ls, nil
}

// Dial opens a client connection with the given basic-auth credentials
// ("" user = no credentials). No retry interceptor: the harness wants to see
// every answer.
func (ls *LiveServer) Dial(user, password string) (*grpc.ClientConn, error) {
	opts := []grpc.DialOption{grpc.WithInsecure(), grpc.WithDefaultCallOptions(grpc.MaxCallRecvMsgSize(64 << 20), grpc.MaxCallSendMsgSize(64 << 20))}
	if user != "" {
		opts = append(opts, rpc.PerRPCPassword(user, password))
	}
	ctx, cancel := context.WithTimeout(context.Background(), 20*time.Second)
	defer cancel()
	return grpc.DialContext(ctx, ls.RPCAddr, opts...)
}

// Stop shuts the server down (closes the database).
func (ls *LiveServer) Stop() {
	if ls.Conn != nil {
		ls.Conn.Close()
	}
	ls.cancel()
	select {
	case <-ls.done:
	case <-time.After(20 * time.Second):
	}
}
