#!/bin/bash
# Runs the repository's pinned test suite with the verif guard OFF and checks
# that every test in BASELINE.json's stable_pass list passes. A test that does
# not pass in the full run is retried (its package alone, up to 3 times):
# kvgraph/test removes a live Badger directory between tests and fails now and
# then on the unchanged tree.
# usage: scripts/baseline.sh [repo-dir]
set -u
REPO=${1:-/repo}
export GOFLAGS=-mod=mod GOPROXY=off GOSUMDB=off GOTOOLCHAIN=local
OUT=$(mktemp /tmp/verif-baseline.XXXXXX.json)
(cd "$REPO" && go test -mod=mod -json -vet=off -count=1 -timeout 25m ./... > "$OUT" 2>/dev/null)
python3 - "$OUT" "$REPO" <<'PY'
import json,sys,subprocess
base=json.load(open('/root/.vp/BASELINE.json'))
want=set(base['stable_pass'])
def parse(lines,res):
    for line in lines:
        try: e=json.loads(line)
        except Exception: continue
        if e.get('Test') and e.get('Action') in('pass','fail','skip'):
            k=e['Package']+'::'+e['Test']
            if res.get(k)!='pass': res[k]=e['Action']
res={}
parse(open(sys.argv[1]),res)
for attempt in range(3):
    missing=[t for t in sorted(want) if res.get(t)!='pass']
    if not missing: break
    pkgs=sorted({t.split('::')[0] for t in missing})
    for p in pkgs:
        rel='./'+p[len('github.com/bmeg/grip/'):]
        out=subprocess.run(['go','test','-mod=mod','-json','-vet=off','-count=1',rel],cwd=sys.argv[2],capture_output=True,text=True).stdout
        parse(out.splitlines(),res)
missing=[t for t in sorted(want) if res.get(t)!='pass']
print("baseline: %d/%d stable tests pass" % (len(want)-len(missing), len(want)))
for t in missing: print("NOT PASSING:", t, res.get(t))
sys.exit(1 if missing else 0)
PY
rc=$?
rm -f "$OUT"
(cd "$REPO" && rm -rf kvgraph/test/test.db.* 2>/dev/null)
exit $rc
