#!/bin/bash
# Offline setup after a fresh restore: regenerate go.sum and pre-build both
# harness binaries from files on disk only.
set -eu
cd "$(dirname "$0")/.."
export GOFLAGS=-mod=mod GOPROXY=off GOSUMDB=off GOTOOLCHAIN=local
mkdir -p bin out evidence
if [ ! -f harness/go.sum ]; then cp /repo/go.sum harness/go.sum; fi
(cd harness && go build -tags verif -o ../bin/verifrun ./cmd/verifrun)
(cd harness && go build -tags verif -race -o ../bin/verifrun.race ./cmd/verifrun)
echo "setup ok"
