#!/bin/bash
# runs every registered check of a tier and prints one summary line per property
tier=${1:-quick}
cd "$(dirname "$0")/.."
mkdir -p out
rc=0
for p in $(jq -r '.checks[].property_id' MANIFEST.json); do
  ./check $p $tier > out/runall-$p-$tier.log 2>&1
  e=$?
  echo "$p exit=$e $(grep -c '^VIOLATION' out/runall-$p-$tier.log) violations, $(grep -c '^KNOWN-FINDING' out/runall-$p-$tier.log) known, $(grep -c '^INCONCLUSIVE' out/runall-$p-$tier.log) inconclusive | $(tail -1 out/runall-$p-$tier.log)"
  [ $e -ne 0 ] && rc=1
done
exit $rc
