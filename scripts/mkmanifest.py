#!/usr/bin/env python3
"""Regenerates /verif/MANIFEST.json from the table below (kept in one place so
the manifest stays valid while checks are added)."""
import json, os, subprocess

ROOT = os.path.dirname(os.path.dirname(os.path.abspath(__file__)))

# property -> (category, technique, level text, level note, design ref)
CHECKS = {
 "C08": ("exploration",
         "runtime reference-model monitor: complete operator x value x argument grid and Boolean trees evaluated by the real matcher and by V().has() in worker processes, compared with a documented-semantics evaluator and metamorphic Boolean relations",
         "Held on every explored (operator, element value, argument) triple at both boundaries (logic.MatchesHasExpression and V().has() on Badger) and on all and/or/not trees to depth 2 (quick) / sampled depth 3 (thorough) in four algebraically equivalent forms. The grid is finite and run completely; nothing is claimed for values outside it.",
         "Trusted: the 120-line Has evaluator in harness/model/has.go (written from the docs); assumptions listed in the evidence file (missing=null, JSON-number grammar for numeric text, non-list membership arguments not generated).",
         "5/C08"),
 "C03": ("exploration",
         "runtime reference-model monitor over mutation histories: every history step is executed on kvgraph/Badger in worker processes and the complete observation set is compared with an abstract-graph model after every step; timestamps checked by string equality",
         "Held on every explored history: all sequences of depth 2 (quick) / 3 (thorough) over a 37-operation alphabet from three base states plus 300 / 20000 seeded random histories of length 10-25, the full observation set (lookups, listings, adjacency with label filters, label listings and scans, traversals) taken after every step. Bounded to the small universe and history lengths stated; the exhaustive part is complete for its bound.",
         "Trusted: the abstract-graph model (harness/model/graph.go). Known findings (same id twice in one batch) are excluded from generation by an avoid predicate and replayed as witnesses; a regression inside that region is invisible.",
         "5/C03"),
 "C01": ("exploration",
         "runtime reference-model monitor: generated programs x hostile/random graphs executed by the real compiler and pipeline (no optimizers, force-load decorator) in worker processes; canonical row multisets compared with a step-by-step reference interpreter; static typing pass as oracle for rejection",
         "Held on every explored (program, graph) pair: all V/E-initial step sequences up to length 3 (quick) / 4 (thorough) over a 63-instance alphabet plus 2000 / 20000 random type-directed programs of length 5-9, on a 10-graph hostile library and 20 / 500 random graphs, plus deep families (every sequence of 1-3 / 1-4 moves with marks at two depths ending in path/select/render/count on graphs with fan-out at every level); ill-typed sequences must be rejected at compile time. Order-sensitive steps are judged by bound arithmetic and sub-multiset only. Nothing is claimed beyond the stated program lengths, alphabet and graph sizes.",
         "Trusted: the reference interpreter harness/model/traversal.go (written from the docs; where the docs are silent it adopts the literal engine behaviour, listed as assumptions in the evidence). Programs whose meaning is unspecified are not generated.",
         "5/C01 and appendix A"),
 "C02": ("exploration",
         "differential runtime monitor: each generated traversal is executed by the production compiler composition (IndexStartOptimize + load elision) over plain kvgraph and over a hint-honouring decorator, and literally (no optimizer, force-load decorator); canonical row multisets, count() and spelling families compared",
         "Held on every explored (program, graph, backend): leading filter runs x data-consuming suffixes x 3 starts, all suffix pairs, 5 spelling families, 2000 / 100000 random programs, 2 graphs each; production == literal as multisets, count() == number of rows, all spellings of a label/id filter identical. No model is involved in the verdict (engine vs engine). Bounded by the program space listed in the evidence rule.",
         "Trusted: the two harness decorators (harness/deco/graph.go, 100 lines) that force or honour the load hint; compiler, optimizer, inspect analysis, processors and Convert are the real code.",
         "5/C02"),
 "C06": ("exploration",
         "crash/hang monitor over hostile requests: the real compiler, pipeline and gRPC handlers run in child worker processes; the Go runtime's own panic / fatal-error report is the sanitizer, keyed by panic site; a canary request after every case checks that the server keeps serving; hangs go through a goroutine-dump deadlock certificate, unbounded streams through a row-count divergence certificate",
         "Held on every generated request: ~26000 (quick) structure-aware requests in 15 families enumerated over small structural spaces (complete products such as null-step x statement kind, statement-kind pairs, operator x key x value kind, aggregation kind x field x parameter x input), through Compile+Run on a populated and an empty graph and through a live server's gRPC handlers, every RPC found by reflection included. A clean run shows no crash on these requests, not crash freedom in general.",
         "Trusted: crash attribution by BEGIN/END progress file (a crash after END, e.g. in a detached job goroutine, would be blamed on the next case and fail the confirmation replay: reported inconclusive, not held). Requests protojson cannot parse are skipped.",
         "5/C06"),
 "C09": ("exploration",
         "runtime reference-model monitor: operation sequences on kvindex.KVIndex over Badger executed in worker processes; after every step every public query is compared with a brute-force scan over the model's live documents",
         "Held on every explored sequence: all sequences of depth 2 (quick) / 3 (thorough) over 39 operations from three base states plus 500 / 20000 random sequences of length 8-20, every sequence once with all queries on all fields after every step and once with queries only after the last step, range bounds at 0 and at term values, plus 90- and 250-term range cases. Field registration after documents exist is a known finding and is excluded from generation.",
         "Trusted: the 60-line scan model in c09.go. Range bounds are kept strictly between term values; KVTermCount cannot distinguish the string \"\" from the number 0, the comparison treats them as one key.",
         "5/C09"),
 "C10": ("exploration",
         "runtime reference-model monitor per driver: operation sequences on the kvi.KVInterface of badger, bolt, level and pebble executed in worker processes and compared, after every operation, with a sorted-map model (point reads, existence, forward/reverse seek walks, several seeks per view, reads inside transactions); plus C03 histories and C01 programs replayed on kvgraph over each driver against the shared models",
         "Held on every explored sequence for all four registered drivers: depth 2 (quick) / 3 (thorough) exhaustive over 27 operations plus 300 / 20000 random sequences of length 10-40 per driver, about 80 observations after every operation; 100 / 3000 mutation histories and 200 / 5000 traversals replayed per driver. Keys over a 4-byte alphabet with shared prefixes, empty values included; 9999 / 10001 / 20005 keys under one prefix per driver (block size of the adapters' DeletePrefix).",
         "Trusted: the sorted-map model (40 lines) and the documented SeekReverse convention (largest key <= k, then descending). Rollback on error, the empty key and Key()/Value() on an invalid iterator are outside the property.",
         "5/C10"),
 "C04": ("fault_enumeration",
         "fault injection with a runtime invariant monitor: a fault-injecting kvi.KVInterface decorator passed to kvgraph.NewKVGraph counts the top-level writes of every mutating call and interrupts the call before each of them in turn; after closing and reopening the store a structural monitor checks index/adjacency invariants over the public read interface; clean restarts are inserted at every position of random mutation histories and checked against the abstract-graph model",
         "The crash points of every call of the 39-call alphabet in 4 pre-states, and of deletions/relabelling around a vertex with 300 incident edges, are enumerated completely (every k in 1..W) and I1-I4 held after each; every restart position of 12 / 400 random histories held against the model, including label-indexed lookups of elements written after the reopen; pairs of calls as the first two calls of a new session (quick: ~260 pairs, thorough: all 38x38 from 3 base states). Thorough additionally SIGKILLs a real child between writes for a third of the calls.",
         "Assumes each top-level KV write is atomic and durable once it returns (the property says so); crash = stop before write k, close, reopen. Trusted: the FaultKV decorator (100 lines) and the invariant checker gq/snapshot.go.",
         "5/C04"),
 "C16": ("exploration",
         "runtime differential monitor on complete state: one hostile write per case against a populated graph (gdbi.GraphInterface and gRPC Edit service of a live server in a worker process); the complete state of all graphs is snapshotted before and after and compared with 'before + exactly that element' (success) or 'before' (error); accepted elements are read back by id, traversal and label",
         "Held on every explored write: ~110 hostile strings x 8 positions x 2 boundaries, 25 property values, 500 / 20000 random position pairs; bystander graph and population unchanged, index invariants intact. Acceptance itself is not judged.",
         "Trusted: the snapshot function (gq/snapshot.go). Invalid UTF-8 cannot cross gRPC; at the gdbi boundary non-UTF-8 property data is a known finding and excluded from generation.",
         "5/C16"),
 "C18": ("exploration",
         "differential runtime monitor with twin graphs on one live server: every generated stream goes through gRPC BulkAdd into one graph and, element by element, through AddVertex/AddEdge into its twin; complete states and reported counts are compared; util.StreamBatch is driven directly against a recording adder",
         "Held on every explored stream: lengths around 50/100/1000 in three valid/invalid mixes, all ordered pairs of an 18-element pool, every graph-switching pattern of length <= 4 over existing/missing/schema graphs, 200 / 5000 random streams; InsertCount and ErrorCount equal the numbers of valid and invalid elements. Same id twice in one write batch with a different shape is a known finding and excluded.",
         "Engine vs engine through the public gRPC API; validity of an element is decided by the documented rules (harness/model/graph.go ValidElem).",
         "5/C18"),
 "C19": ("exploration",
         "runtime monitor with a direct-computation oracle: each aggregate() step is executed by the real engine in worker processes and its rows are checked against a calculator fed with the rows of the same traversal without aggregate(); independence is checked by re-running each aggregation alone",
         "Held on every explored (multiset, aggregation set): 22 aggregation specs x 11 value multisets, all pairs and triples of aggregation kinds, buffer-boundary row counts (999/1000/1001), 1500 / 20000 random multisets with 1-3 aggregations.",
         "Trusted: the 150-line calculator in c19.go. Percentiles are checked for order and range only (t-digest is approximate); numeric text is not generated.",
         "5/C19"),
 "C14": ("exploration",
         "differential runtime monitor without a database: statement sequences are compiled by the Mongo compiler and by the core compiler and their accept/reject decision, result type and mark types compared; the $match document emitted for generated has-expressions (read through a verif-tagged hook) is evaluated by a MongoDB-semantics interpreter on scalar documents and compared with the core matcher",
         "Held on every explored case: ~580000 (quick) statement sequences up to length 4 / 5 over a 68-instance alphabet agree on typing; 90+ operator x argument leaves with not / double not, pairs under and/or/not and 3000 / 60000 random trees of depth <= 3 select the same scalar documents as logic.MatchesHasExpression. Ordering comparisons with non-number operands (BSON type brackets) are a known finding and excluded.",
         "Trusted base: the 250-line $match interpreter harness/model/mongomatch.go (no MongoDB in the sandbox). Hook H4 mongo/export_verif.go (build tag verif) only reads the compiled pipeline.",
         "5/C14"),
 "C20": ("exploration",
         "recording-driver monitor: the psql and existing-sql backends run over a recording database/sql driver (injected through verif-tagged constructors); every statement and its bound arguments are captured and a PostgreSQL tokenizer compares the statement sent for a hostile client string with the one sent for a benign string (token skeleton, decoded literals, bound arguments)",
         "All 45 entry points that take an id, label or name x 52 client strings are run completely. 23 call sites build SQL by string formatting and are listed as known findings (one per call site, keyed driver:function:argument:quote - a defect at the same site that needs no quote character has another key); the parameterised sites (AddVertex/AddEdge) hold, and any site not listed that changes token structure is reported.",
         "Trusted: the 180-line PostgreSQL tokenizer harness/model/sqltok.go (standard_conforming_strings on). No SQL server exists in the sandbox; canned empty result sets stand in for query answers.",
         "5/C20"),
 "C12": ("exploration",
         "runtime trace monitor + race detector under schedule perturbation: loop programs run in a -race build with verif-tagged event taps and delay points in the mark/jump/queue protocol; GOMAXPROCS and delay profiles are varied per run; result multiset compared with a worklist interpreter of the iterative definition, traveler conservation checked on the recorded event trace, non-closure diagnosed by livelock/deadlock certificates, race reports parsed and keyed",
         "Held on every observed execution: ~130 loop programs x 6 graphs x GOMAXPROCS in {1,2,4,16} x 15 delay profiles (quick: a rotating third, about 1500 runs; thorough: all, with repetitions), including runs with thousands of travelers in flight and one with 18750 travelers jumping back at once (more than all buffers of the cycle); a run that stops moving is judged by deadlock, livelock or stall certificates. The evidence reports the number of distinct interleaving signatures actually observed (about 700 in a quick run); 'all interleavings' is sampled, not enumerated.",
         "Trusted: the worklist interpreter (harness/model/loop.go), the recorder (harness/mon). Hooks H1/H2 (verifhook taps) are add-only no-ops without the tag. Bodies are restricted to order-preserving steps as the property states.",
         "5/C12"),
 "C13": ("exploration",
         "sequence monitor + race detector under schedule perturbation: every combinator is driven directly with uniquely numbered items in a -race build; latency is injected through verif-tagged delay points inside the worker loops and through slow items; the output sequence is compared with the input sequence and closure is required",
         "Held on every observed execution: 7 combinators x 24 input lengths around every worker/batch/buffer size x worker counts / batch sizes / pipeline counts x latency patterns x GOMAXPROCS in {1,2,16} (quick: about 3900 runs, a rotating third of the larger lengths; thorough: all, two GOMAXPROCS values each). No race report.",
         "Items carry unique ids, so loss, duplication and reordering are directly visible; hooks H3 are add-only no-ops without the tag.",
         "5/C13"),
 "C05": ("exploration",
         "spy-service monitor on the real interceptor chain + live-server differential: every method found by reflection is called through a grpc.Server that carries exactly the accounts interceptors in front of spy services (reply code Unimplemented = the handler was reached), for every user x graph x policy, and compared with an independent evaluator of the policy model; on a live GripServer every method is called over gRPC and over the HTTP gateway and a denied call must be refused, leak no element data and leave all graphs unchanged",
         "The matrix is finite and run completely: 34 methods x 6 users x 2 graphs x 12 policies (spy layer), BulkAdd filtering for every graph pattern of length <= 3, every method with no accounts configured, and 4 (quick) / 7 (thorough) policies x users x graphs x methods x {gRPC, HTTP} on a live server. Held on all of them.",
         "Trusted: the 10-line policy evaluator and the operation-class rule in c05.go (derived from the documentation, not from accounts.MethodMap); on the live server a refusal is recognised from status codes.",
         "5/C05"),
 "C11": ("exploration",
         "differential runtime monitor on a live server: every generated traversal is submitted as a job and its stored rows, status count and every element-typed resume split are compared with the direct traversal through the same gRPC server; search answers are compared with a prefix-match model; a restart scenario re-opens the job store on the same directory",
         "Held on every explored case: 30 hand-picked traversals of all result types and result sizes around the pool/buffer boundaries plus 80 / 1500 random traversals, each with every resume split; a 12-job / 17-query search scenario; a restart-then-delete scenario (listed, status, readable, resumable, then gone incl. files).",
         "Engine vs engine (no model) for stored rows and resume; the 10-line prefix model for search. Completion is awaited by bounded polling (inconclusive if exceeded).",
         "5/C11"),
 "C07": ("exploration",
         "termination and leak monitor with state-based certificates: traversals with closed-form answers run on graphs sized around and beyond every internal buffer capacity in worker processes; closure of the result stream, the closed-form row count, a row-count divergence bound, and (after completion, cancellation or a satisfied limit) the return of engine goroutines and temporary stores to the baseline are checked; a run that does not close is judged by a goroutine-dump deadlock certificate, never by the clock",
         "Held on every explored (shape, size, traversal, cancellation point): 13 sizes from 0 to 12000, every single step and (quick: a sixth of) every ordered pair of 16 fan-out/fan-in steps, star/pairs traversals, limit/range mid-stream and right behind a 12000-spoke hub, cancellation after 0/1/100/5001 rows. 'Always finishes' is restated as bounded progress on the explored sizes.",
         "Closed forms are computed by 30 lines in c07.go; the deadlock certifier is fw/worker.go. Inconclusive (watchdog without certificate) is reported separately.",
         "5/C07"),
 "C15": ("exploration",
         "differential monitor over a live table service: the repository's SimpleTableServicer serves generated table sets on a loopback gRPC listener inside the worker, gripper.NewTabularGraph maps them, and (a) every read method of the graph interface, (b) traversals compiled by the driver's own optimizer are compared with the graph materialised from (tables, mapping) - by the reference interpreter and by the same traversal on that graph loaded into kvgraph/Badger; write calls must be refused; a traversal that does not finish is judged by the goroutine-dump deadlock certificate (gRPC stream waits on the in-process peer count as blocked)",
         "Held on every explored (table set, mapping, observation | program): 13 hostile worlds + 24/300 seeded random worlds, ~8k/150k programs.",
         "Repeated links (two link rows giving one edge id) are compared with the interpreter on a multigraph only; lookups of such ids are not generated.",
         "5/C15"),
 "C17": ("exploration",
         "race detector + history checker: seeded client sessions (2-32 clients, 9 profiles) against one live GripServer over loopback gRPC in a -race worker; every call is recorded at the client boundary with call/return stamps; race-detector reports are keyed by the racing function pair and every key must be listed; a fatal error ends the worker and is attributed to the running case; ids with one writer must behave sequentially, values read on shared ids must have been written before the read returned, the final values of shared ids must be explained by an order of the acknowledged edits that respects each client's program order (constraint graph, acyclicity), the stored graph must satisfy its index/data invariants at quiescence, stored schemas must be one upload, jobs must end COMPLETE with the rows of their query; manager.GetTempKV and util.StreamBatch are driven directly",
         "Held on every explored schedule: 3/20 repetitions x 9 profiles x 2-32 clients x GOMAXPROCS 1-16; no race report, no fatal error, every history explained. A state-based violation is reported even if isolated replays take another schedule. Interleavings are sampled, not enumerated.",
         "porcupine was not needed: unique values make the program-order check exact for present keys and the check is polynomial; for keys that end absent the killer search is permissive (never stricter than the property).",
         "5/C17"),
}

NOT_YET = "check not built yet in this session (design in DESIGN.md section 5); claimed once the monitor exists and is silent on the unchanged tree"

def hook_commits():
    try:
        out = subprocess.run(["git", "-C", "/repo", "log", "--format=%h %s"], capture_output=True, text=True).stdout
    except Exception:
        return []
    return [l.split()[0] for l in out.splitlines() if l.split(" ", 1)[1].startswith("verif hook:")]

def main():
    props = [json.loads(l)["id"] for l in open(os.path.join(ROOT, "properties.jsonl"))]
    na_path = os.path.join(ROOT, "scripts", "not_applicable.json")
    na_reasons = json.load(open(na_path)) if os.path.exists(na_path) else {}
    checks = []
    na = []
    for p in props:
        if p in CHECKS:
            cat, tech, text, note, ref = CHECKS[p]
            checks.append({
                "property_id": p,
                "quick_cmd": "./check %s quick" % p,
                "thorough_cmd": "./check %s thorough" % p,
                "evidence_file": "/verif/evidence/%s.json" % p,
                "replay_cmd_template": "./check %s quick --replay {path}" % p,
                "engine": "verifrun",
                "level_claimed": {"category": cat, "text": text, "design_ref": "DESIGN.md section " + ref},
                "level_note": note,
                "technique": tech,
            })
        else:
            na.append({"property_id": p, "reason": na_reasons.get(p, NOT_YET)})
    m = {
        "version": 1,
        "setup_cmd": "./scripts/setup.sh",
        "hooks": {
            "guard": "verif",
            "enable": "go build -tags verif (the harness module replaces github.com/bmeg/grip with /repo, so every ./check rebuilds /repo's working tree with the tag on)",
            "baseline_off_cmd": "./scripts/baseline.sh",
            "source_commits": hook_commits(),
            "add_only": True,
        },
        "engines": [{
            "name": "verifrun",
            "path": "/verif/harness",
            "serves_properties": [c["property_id"] for c in checks],
            "kind_free_text": "Go harness: a driver generates seeded/exhaustive case lists, runs the real bmeg/grip code in child worker processes (plain or -race build), and decides each case with a runtime monitor (reference model, differential twin, trace checker, crash/hang certificate, race-report parser).",
        }],
        "checks": checks,
        "not_applicable": na,
        "notes": "Technique family: runtime monitoring and sanitizers. Verdicts are three-valued (held / violated / inconclusive); see DESIGN.md section 1. KNOWN_FINDINGS.json lists genuine defects (fixed or known).",
    }
    json.dump(m, open(os.path.join(ROOT, "MANIFEST.json"), "w"), indent=1)
    print("MANIFEST.json: %d checks, %d not_applicable" % (len(checks), len(na)))

main()
