#!/bin/bash
# Development helper (not registered in MANIFEST.json): runs one check against
# ANOTHER copy of bmeg/grip (a scratch worktree with a seeded change applied)
# without touching /repo, /verif/evidence or /verif/out.
# usage: scripts/check-alt.sh <repo-dir> <Cnn> <quick|thorough> [args]
set -u
REPO=$(realpath "${1:?repo dir}"); PROP=${2:?property}; TIER=${3:-quick}; shift; shift; shift || true
ROOT=$(cd "$(dirname "$0")/.." && pwd)
export GOFLAGS=-mod=mod GOPROXY=off GOSUMDB=off GOTOOLCHAIN=local
ALT=/tmp/verif-alt/$(basename "$REPO")
mkdir -p "$ALT/bin" "$ALT/out" "$ALT/evidence"
cp "${VERIF_KNOWN:-$ROOT/KNOWN_FINDINGS.json}" "$ALT/KNOWN_FINDINGS.json"
sed "s#=> /repo#=> $REPO#" "$ROOT/harness/go.mod" > "$ALT/go.mod"
cp "$ROOT/harness/go.sum" "$ALT/go.sum"
FLAGS=""; BIN=$ALT/bin/verifrun
case " C12 C13 C17 " in *" $PROP "*) FLAGS="-race"; BIN=$ALT/bin/verifrun.race;; esac
if ! (cd "$ROOT/harness" && go build -modfile="$ALT/go.mod" -tags verif $FLAGS -o "$BIN" ./cmd/verifrun) > "$ALT/out/build-$PROP.log" 2>&1; then
  cat "$ALT/out/build-$PROP.log"; echo "BUILD-FAILED property=$PROP"; exit 2
fi
export VERIF_ROOT=$ALT VERIF_SCRATCH=${VERIF_SCRATCH:-/tmp}
exec "$BIN" run "$PROP" "$TIER" "$@"
