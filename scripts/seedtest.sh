#!/bin/bash
# Development helper: applies a seeded change to a fresh scratch worktree of
# /repo's HEAD, runs the given checks against it (scripts/check-alt.sh) and
# removes the worktree. usage: scripts/seedtest.sh <patch.diff> <name> <tier> <Cnn>...
set -u
PATCH=$(realpath "$1"); NAME=$2; TIER=$3; shift; shift; shift
ROOT=$(cd "$(dirname "$0")/.." && pwd)
WT=/tmp/seed/run-$NAME
git -C /repo worktree remove --force "$WT" >/dev/null 2>&1
git -C /repo worktree add --detach "$WT" HEAD >/dev/null 2>&1 || { echo "worktree failed"; exit 2; }
if ! git -C "$WT" apply "$PATCH" 2>/tmp/seed/apply-$NAME.err; then
  if ! git -C "$WT" apply --3way "$PATCH" 2>>/tmp/seed/apply-$NAME.err; then
    echo "$NAME: PATCH DOES NOT APPLY"; cat /tmp/seed/apply-$NAME.err; git -C /repo worktree remove --force "$WT"; exit 2
  fi
fi
for p in "$@"; do
  "$ROOT/scripts/check-alt.sh" "$WT" $p $TIER > /tmp/seed/result-$NAME-$p.log 2>&1
  e=$?
  echo "$NAME $p exit=$e | $(grep -c '^VIOLATION' /tmp/seed/result-$NAME-$p.log) violation lines | $(grep -m2 'key=' /tmp/seed/result-$NAME-$p.log | cut -c1-220 | tr '\n' ' ') | $(tail -1 /tmp/seed/result-$NAME-$p.log | cut -c1-160)"
done
git -C /repo worktree remove --force "$WT" >/dev/null 2>&1
rm -rf /tmp/verif-alt/run-$NAME
