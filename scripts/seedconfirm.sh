#!/bin/bash
# Development helper: confirms a seeded change: the patch applies to /repo's HEAD,
# the tree builds, the pinned suite passes, and the author's demonstration
# fails on the changed tree and passes on the unchanged tree.
# usage: scripts/seedconfirm.sh <seed-dir (with patch.diff, demo/)> <name>
set -u
DIR=$(realpath "$1"); NAME=$2
export GOFLAGS=-mod=mod GOPROXY=off GOSUMDB=off GOTOOLCHAIN=local
WT=/tmp/seed/confirm-$NAME
git -C /repo worktree remove --force "$WT" >/dev/null 2>&1
git -C /repo worktree add --detach "$WT" HEAD >/dev/null 2>&1 || { echo "$NAME worktree failed"; exit 2; }
place() { # copy the demonstration next to the package it declares
  for f in "$DIR"/demo/*.go; do
    [ -f "$f" ] || continue
    pkg=$(grep -m1 '^package ' "$f" | awk '{print $2}')
    case "$pkg" in
      seeddemo|seeddemo_test|main) d="$WT/seeddemo";;
      *) d=$(dirname "$(grep -rl --include=*.go "^package $pkg\$" "$WT" | grep -v seeddemo | head -1)");;
    esac
    mkdir -p "$d"; cp "$f" "$d/"; echo "$d"
  done | sort -u
}
PKGS=$(place)
run() { for d in $PKGS; do (cd "$d" && timeout 1500 go test -count=1 -run 'Seed|Demo|Test' . 2>&1 | tail -3); done; }
UNCH=$(run); echo "$UNCH" | grep -q "^ok" && U=pass || U=FAIL
git -C "$WT" apply "$DIR/patch.diff" 2>/dev/null || git -C "$WT" apply --3way "$DIR/patch.diff" 2>/dev/null || { echo "$NAME PATCH-DOES-NOT-APPLY"; git -C /repo worktree remove --force "$WT"; exit 2; }
CH=$(run); echo "$CH" | grep -q "FAIL\|panic\|exit status" && C=fails || C=PASSES
for d in $PKGS; do case "$d" in */seeddemo) rm -rf "$d";; *) for f in "$DIR"/demo/*.go; do rm -f "$d/$(basename $f)"; done;; esac; done
B=$(/verif/scripts/baseline.sh "$WT" | head -1)
echo "$NAME unchanged-tree demo: $U | changed-tree demo: $C | $B"
git -C /repo worktree remove --force "$WT" >/dev/null 2>&1
